------------------------------- MODULE MTLayout -------------------------------
(***************************************************************************)
(* The layout conversions of MultitaskMultivariateNormal as maps on        *)
(* labelled tensors (property C11: mean, variance, log_prob, rsample,      *)
(* to_data_independent_dist and the from_* constructors all refer to the   *)
(* same joint distribution over (point, task) pairs).                      *)
(*                                                                         *)
(* Storage: `loc` and the covariance rows are flat of length n*t, point-   *)
(* major when interleaved and task-major otherwise.  Variable (i,a) has    *)
(* label L(i,a) = 10*i + a + 1.  Every code-shaped conversion below is the *)
(* literal sequence of view / transpose / reshape calls of the code, with  *)
(* view = reinterpretation of the row-major data.                          *)
(***************************************************************************)
EXTENDS PyIndex, TLC

CONSTANTS MaxN, MaxT, Variant      \* Variant: "pinned" | "fixed"

VARIABLES n, t, inter
vars == <<n, t, inter>>

L(i, a) == 10 * i + a + 1

\* ---- tensor primitives ---------------------------------------------------------------------
View(X, shape) == [shape |-> shape, data |-> X.data, err |-> FALSE]                 \* same memory, new shape
Transpose2(X) ==                                                                      \* (r, c) -> (c, r), made contiguous
  LET r == X.shape[1] c == X.shape[2]
  IN [shape |-> <<c, r>>, data |-> [p \in 1..(r * c) |-> X.data[((p - 1) % r) * c + ((p - 1) \div r) + 1]], err |-> FALSE]
Mat(rows, cols, f(_, _)) == [shape |-> <<rows, cols>>, data |-> [p \in 1..(rows * cols) |-> f((p - 1) \div cols, (p - 1) % cols)], err |-> FALSE]
Vec(len, f(_)) == [shape |-> <<len>>, data |-> [p \in 1..len |-> f(p - 1)], err |-> FALSE]

\* ---- the semantics -------------------------------------------------------------------------
\* variable stored at flat position k of loc / of the covariance rows
VarAt(k) == IF inter THEN L(k \div t, k % t) ELSE L(k % n, k \div n)
Loc == Vec(n * t, VarAt)
NTMean == Mat(n, t, L)                      \* what the user sees: entry [i][a] belongs to variable (i,a)

\* ---- code-shaped conversions ---------------------------------------------------------------
\* .mean / .variance / rsample output: flat storage order -> n x t
ToNT(flat) == IF inter THEN View(flat, <<n, t>>) ELSE Transpose2(View(flat, <<t, n>>))

\* log_prob(value): n x t value -> flat vector handed to the flat Gaussian
LogProbArg(value) ==
  IF inter THEN View(value, <<n * t>>)
  ELSE IF Variant = "pinned" THEN View(Transpose2(View(value, <<t, n>>)), <<n * t>>)
  ELSE View(Transpose2(value), <<n * t>>)

\* to_data_independent_dist: covariance row/column picked for (data i, task a)
DataIndepIndex(i, a) == IF inter THEN i * t + a ELSE i + a * n

\* from_batch_mvn: tasks are a batch dimension of K (t blocks of n x n); the result is interleaved with
\* BlockInterleavedLinearOperator: entry ((i,a),(j,c)) = [a = c] * K_a[i][j]; mean is permuted so tasks come last.
\* from_independent_mvns: non-interleaved block diagonal, mean stacked on the last dimension.
BlockRowVar(k, il) == IF il THEN L(k \div t, k % t) ELSE L(k % n, k \div n)

\* ---- properties ------------------------------------------------------------------------------
MeanRefersToPairs     == ToNT(Loc) = NTMean
LogProbRefersToPairs  == LogProbArg(NTMean) = Loc            \* position k of the argument carries the value for variable VarAt(k)
RsampleRoundTrip      == LogProbArg(ToNT(Loc)) = Loc          \* log_prob(rsample()) evaluates each coordinate against itself
DataIndepRefersToPairs == \A i \in 0..(n - 1), a \in 0..(t - 1) : Loc.data[DataIndepIndex(i, a) + 1] = L(i, a)

Init == n \in 1..MaxN /\ t \in 1..MaxT /\ inter \in BOOLEAN
Next == UNCHANGED vars
Spec == Init /\ [][Next]_vars
=============================================================================
