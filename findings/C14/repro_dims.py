"""C14: the multitask wrappers when the latent / task dimension is NOT the last batch dimension (latent_dim / task_dim = -2).

Run from the repository root (or with the repository on sys.path):  python repro_dims.py
Every block prints what the library returns next to the closed form; exit code 1 if any of the three defects shows.

 (1) IndependentMultitaskVariationalStrategy.kl_divergence() sums over dim -1 instead of task_dim
     signature  C14/IndependentMultitaskVariationalStrategy/kl/summed-over-last-dim-instead-of-task_dim
 (2) IndependentMultitaskVariationalStrategy(..., task_dim=-2)(x, task_indices=...) permutes its one-hot task mask with the
     inverse of the permutation it needs (raises; silently wrong values when the sizes happen to agree)
     signature  C14/IndependentMultitaskVariationalStrategy/task-indices/task_dim-not-last
 (3) LazyEvaluatedKernelTensor inherits _permute_batch: x1 / x2 are permuted, the batch dimensions of the kernel's own
     parameters are not.  LMCVariationalStrategy / IndependentMultitaskVariationalStrategy with latent_dim / task_dim = -2 and a
     kernel with a batch shape raise in the all-tasks branch, or return a covariance built from the wrong kernels when all
     batch sizes are equal
     signature  C14/LMCVariationalStrategy/all-tasks/batched-kernel/latent-dim-not-last   (and .../IndependentMultitask...)
"""
import os
import sys
import warnings

sys.path.insert(0, os.getcwd())
warnings.filterwarnings("ignore")
import torch  # noqa: E402
import gpytorch  # noqa: E402

torch.set_default_dtype(torch.float64)
V = gpytorch.variational
M, N, D = 3, 4, 2
bad = []


class Model(gpytorch.models.ApproximateGP):
    def __init__(self, wrapper, batch_shape, dim, kernel_batch, num_tasks=2):
        batch_shape, kb = torch.Size(batch_shape), torch.Size(kernel_batch)
        torch.manual_seed(0)
        base = V.VariationalStrategy(self, torch.randn(M, D), V.MeanFieldVariationalDistribution(M, batch_shape=batch_shape), learn_inducing_locations=True)
        if wrapper == "lmc":
            vs = V.LMCVariationalStrategy(base, num_tasks=num_tasks, num_latents=batch_shape[dim], latent_dim=dim)
        else:
            vs = V.IndependentMultitaskVariationalStrategy(base, num_tasks=batch_shape[dim], task_dim=dim)
        super().__init__(vs)
        self.mean_module = gpytorch.means.ZeroMean()
        self.covar_module = gpytorch.kernels.RBFKernel(batch_shape=kb)
        if len(kb):
            self.covar_module.lengthscale = torch.linspace(0.5, 2.0, kb.numel()).reshape(*kb, 1, 1)
        base.variational_params_initialized.fill_(1)
        vd = base._variational_distribution
        with torch.no_grad():
            vd.variational_mean.copy_(torch.randn(*batch_shape, M))
            vd._variational_stddev.copy_(torch.rand(*batch_shape, M) + 0.3)
        self.vd = vd

    def forward(self, x):
        return gpytorch.distributions.MultivariateNormal(self.mean_module(x), self.covar_module(x))


def whitened_kl(m, s):          # KL(N(m, diag s^2) || N(0, I)), one value per batch entry
    return 0.5 * ((s * s).sum(-1) + (m * m).sum(-1) - m.shape[-1] - (s * s).log().sum(-1))


torch.manual_seed(123)
X = torch.randn(N, D)

# ---- (1) ---------------------------------------------------------------------------------------------------------------
for shape in ([3, 3], [3, 2]):
    model = Model("imt", shape, -2, []).eval()
    with torch.no_grad():
        out = model(X)
        kl = model.variational_strategy.kl_divergence()
        per_gp = whitened_kl(model.vd.variational_mean, model.vd._variational_stddev)          # [tasks, batch]
    want = per_gp.sum(-2)                                                                       # one value per batch entry
    ok = kl.shape == want.shape and torch.allclose(kl, want)
    print("(1) IndependentMultitask, batch shape %s, task_dim=-2: output batch shape %s; kl_divergence() = %s; sum over the TASKS of the per-GP KL = %s; "
          "sum over the last dimension = %s -> %s" % (shape, list(out.batch_shape), kl.tolist(), want.tolist(), per_gp.sum(-1).tolist(), "ok" if ok else "WRONG"))
    if not ok:
        bad.append(1)

# ---- (2) ---------------------------------------------------------------------------------------------------------------
ti = torch.tensor([0, 1, 1, 0])
for shape in ([2, 3], [2, 4]):          # [tasks, batch]; in the second case batch = N = 4
    model = Model("imt", shape, -2, []).eval()
    with torch.no_grad():
        full = model(X)                 # all tasks: mean [batch, N, tasks]
        want = full.mean[..., torch.arange(N), ti]
        try:
            got = model(X, task_indices=ti).mean
            ok = got.shape == want.shape and torch.allclose(got, want)
            msg = "mean %s" % [round(v, 4) for v in got.flatten().tolist()[:4]]
        except Exception as e:
            ok, msg = False, "raises %s: %s" % (type(e).__name__, str(e)[:90])
    print("(2) IndependentMultitask, batch shape %s, task_dim=-2, one task per input: %s; the selected entries of the all-tasks mean: %s -> %s" % (
        shape, msg, [round(v, 4) for v in want.flatten().tolist()[:4]], "ok" if ok else "WRONG"))
    if not ok:
        bad.append(2)

# ---- (3) ---------------------------------------------------------------------------------------------------------------
for wrapper in ("lmc", "imt"):
    for shape in ([3, 2], [2, 2]):
        torch.manual_seed(1)
        model = Model(wrapper, shape, -2, shape).eval()
        with torch.no_grad():
            # reference: the same model with the latent dimension LAST (all tensors transposed in the two batch dimensions)
            ref = Model(wrapper, shape[::-1], -1, shape[::-1]).eval()
            ref.vd.variational_mean.copy_(model.vd.variational_mean.transpose(0, 1))
            ref.vd._variational_stddev.copy_(model.vd._variational_stddev.transpose(0, 1))
            ref.covar_module.lengthscale = model.covar_module.lengthscale.transpose(0, 1)
            if wrapper == "lmc":
                ref.variational_strategy.lmc_coefficients.copy_(model.variational_strategy.lmc_coefficients.transpose(0, 1))
            want = ref(X).covariance_matrix
            try:
                got = model(X).covariance_matrix
                ok = got.shape == want.shape and torch.allclose(got, want)
                msg = "max |difference of the covariance| = %.3g" % float((got - want).abs().max())
            except Exception as e:
                ok, msg = False, "raises %s: %s" % (type(e).__name__, str(e)[:110])
        print("(3) %s, batch shape %s, dimension -2, kernel batch shape %s, all tasks, against the same model with the dimension last: %s -> %s" % (
            wrapper, shape, shape, msg, "ok" if ok else "WRONG"))
        if not ok:
            bad.append(3)

print("defects shown:", sorted(set(bad)) or "none")
sys.exit(1 if bad else 0)
