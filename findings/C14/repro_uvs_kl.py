import torch, gpytorch
D = torch.float64
class M(gpytorch.models.ApproximateGP):
    def __init__(self, Z, jitter):
        vd = gpytorch.variational.CholeskyVariationalDistribution(Z.size(-2))
        vs = gpytorch.variational.UnwhitenedVariationalStrategy(self, Z, vd, learn_inducing_locations=True, jitter_val=jitter)
        super().__init__(vs)
        self.mean_module = gpytorch.means.ConstantMean()
        self.covar_module = gpytorch.kernels.ScaleKernel(gpytorch.kernels.RBFKernel())
    def forward(self, x):
        return gpytorch.distributions.MultivariateNormal(self.mean_module(x), self.covar_module(x))
Z = torch.tensor([[-0.8], [0.0], [0.7]], dtype=D); X = torch.tensor([[-0.5], [0.4]], dtype=D)
for jitter in (None, 0.05):
    model = M(Z, jitter).to(D)
    model.variational_strategy.variational_params_initialized.fill_(1)
    with torch.no_grad():
        model.eval(); kl_eval = model.variational_strategy.kl_divergence().item()
        model.train(); model(X); kl_train = model.variational_strategy.kl_divergence().item()
    print("jitter_val", jitter, "kl eval-mode", kl_eval, "kl training-mode after a call", kl_train)
