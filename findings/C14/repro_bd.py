import torch, gpytorch, math
torch.manual_seed(0)
D = torch.float64
class PPGPR(gpytorch.models.ApproximateGP):
    def __init__(self, Z):
        vd = gpytorch.variational.CholeskyVariationalDistribution(Z.size(-2))
        vs = gpytorch.variational.BatchDecoupledVariationalStrategy(self, Z, vd, learn_inducing_locations=True)
        super().__init__(vs)
        self.mean_module = gpytorch.means.ConstantMean()
        self.covar_module = gpytorch.kernels.ScaleKernel(gpytorch.kernels.RBFKernel())
    def forward(self, x):
        return gpytorch.distributions.MultivariateNormal(self.mean_module(x), self.covar_module(x))
Z = torch.rand(3, 2, dtype=D)
model = PPGPR(Z).to(D).eval()
vs = model.variational_strategy
X = torch.rand(2, 4, 2, dtype=D)            # a batch of two input sets
with torch.no_grad():
    _ = model(X[0])                          # first call initialises the variational parameters
    vs._variational_distribution.variational_mean.copy_(torch.tensor([0.5, -1.0, 0.3]))
    model.train(); model.eval()              # drop caches
    kl = vs.kl_divergence()
    one_by_one = [model(X[0]), model(X[1])]
    batched = model(X)
print("KL with q(u) = N(m, I):", kl.item(), " closed form 0.5 m'm =", 0.5 * (0.25 + 1 + 0.09), " difference", kl.item() - 0.67, "= 0.5*3*log(2 pi) =", 1.5 * math.log(2 * math.pi))
print("batched output shape", batched.mean.shape, "(expected (2, 4))")
print("mean, element 0 one-by-one:", one_by_one[0].mean)
print("mean, batched             :", batched.mean)
print("var, element 1 one-by-one :", one_by_one[1].variance)
print("var, batched              :", batched.variance)
