"""Fixed in /repo f27ad99 (reported by the author of seeded change C14-r6s1; covered by the 2-d grid node cells of checks/c14.py): for d >= 2
GridInterpolationVariationalStrategy lays out its inducing_points with dimension 0 varying FASTEST, while Interpolation.interpolate
(used by _compute_grid) enumerates the grid with dimension 0 varying SLOWEST.  The interpolation weights of the j-th inducing point
therefore select another inducing index (grid 6 x 6 on [0,1] x [0,2]: 1 -> 6, 9 -> 19), so the prior p(u) used in the KL (kernel at
inducing_points) belongs to a permuted point set relative to the q(u) entries the predictions read, unless kernel and grid are symmetric
across dimensions.  d = 1 (what checks/c14.py exercises for this strategy) is unaffected.
usage: /venv/bin/python repro_grid_vs_index_order.py  (exit 1 while the mismatch is present)"""
import sys
import torch
import gpytorch

torch.set_default_dtype(torch.float64)


class M(gpytorch.models.ApproximateGP):
    def __init__(s):
        vd = gpytorch.variational.CholeskyVariationalDistribution(36)
        vs = gpytorch.variational.GridInterpolationVariationalStrategy(s, grid_size=6, grid_bounds=[(0., 1.), (0., 2.)], variational_distribution=vd)
        super().__init__(vs)
        s.mean_module = gpytorch.means.ConstantMean()
        s.covar_module = gpytorch.kernels.RBFKernel(ard_num_dims=2)

    def forward(s, x):
        return gpytorch.distributions.MultivariateNormal(s.mean_module(x), s.covar_module(x))


vs = M().variational_strategy
bad = 0
for j in range(36):
    idx, val = vs._compute_grid(vs.inducing_points[j:j + 1])
    k = idx[0][val[0].argmax()].item()
    if k != j:
        bad += 1
        if bad <= 3:
            print("inducing point %d %s -> weight %.3f on inducing index %d" % (j, vs.inducing_points[j].tolist(), val[0].max().item(), k))
print("%d of 36 inducing points are interpolated onto another index" % bad)
sys.exit(1 if bad else 0)
