# C15/svgp/unwhitened/inducing-equal-inputs/* : UnwhitenedVariationalStrategy.prior_distribution adds the DEFAULT jitter of
# LinearOperator.add_jitter (1e-3) instead of self.jitter_val (1e-6 in double).  forward() overwrites the memoised prior with the
# jitter_val version on its ordinary branch, but not on its shortcut branch (inputs identical to the inducing points), so the
# KL term of the ELBO depends on which inputs were passed, and N * ELBO can exceed the exact log marginal likelihood.
import math, torch, gpytorch
D = torch.float64
torch.manual_seed(1)
class GP(gpytorch.models.ApproximateGP):
    def __init__(self, Z):
        vd = gpytorch.variational.CholeskyVariationalDistribution(Z.size(0))
        super().__init__(gpytorch.variational.UnwhitenedVariationalStrategy(self, Z, vd, learn_inducing_locations=False))
        self.mean_module, self.covar_module = gpytorch.means.ZeroMean(), gpytorch.kernels.ScaleKernel(gpytorch.kernels.RBFKernel())
    def forward(self, x):
        return gpytorch.distributions.MultivariateNormal(self.mean_module(x), self.covar_module(x))
n = 8
X = torch.rand(n, 2, dtype=D) * 2
y = torch.sin(3 * X[:, 0]) + 0.1 * torch.randn(n, dtype=D)
lik = gpytorch.likelihoods.GaussianLikelihood().to(D); lik.noise = 0.01
model = GP(X.clone()).to(D); model.train(); lik.train()
model.covar_module.base_kernel.lengthscale = 0.7
mll = gpytorch.mlls.VariationalELBO(lik, model, num_data=n)
model(X)                                             # initialise
with torch.no_grad():
    K, s2, I = model.covar_module(X).to_dense(), lik.noise.item(), torch.eye(n, dtype=D)
    exact = torch.distributions.MultivariateNormal(torch.zeros(n, dtype=D), K + s2 * I).log_prob(y).item()
    Kj = K + 1e-3 * I                                # q(u) = posterior of u under the prior the shortcut branch uses
    S = torch.linalg.inv(torch.linalg.inv(Kj) + I / s2); m = S @ y / s2
    vd = model.variational_strategy._variational_distribution
    vd.variational_mean.copy_(m); vd.chol_variational_covar.copy_(torch.linalg.cholesky(0.5 * (S + S.T)))
print("N * ELBO (batch == inducing points) :", (mll(model(X), y) * n).item())
print("exact log marginal likelihood       :", exact, " <- smaller: the 'lower bound' is not one")
kl_same = model.variational_strategy.kl_divergence().item()
model(X + 1e-9)                                      # any other input: ordinary branch, prior memo = Kzz + 1e-6 I
print("KL(q(u)||p(u)) after model(Z):", kl_same, " after model(Z + 1e-9):", model.variational_strategy.kl_divergence().item())
