import torch, gpytorch, math
torch.manual_seed(0)
D = torch.float64
class CiqGP(gpytorch.models.ApproximateGP):
    def __init__(self, Z):
        vd = gpytorch.variational.NaturalVariationalDistribution(Z.size(-2))
        vs = gpytorch.variational.CiqVariationalStrategy(self, Z, vd, learn_inducing_locations=True)
        super().__init__(vs)
        self.mean_module = gpytorch.means.ConstantMean()
        self.covar_module = gpytorch.kernels.ScaleKernel(gpytorch.kernels.RBFKernel())
    def forward(self, x):
        return gpytorch.distributions.MultivariateNormal(self.mean_module(x), self.covar_module(x))
Z = torch.tensor([[-0.8], [0.0], [0.7]], dtype=D)
X = torch.tensor([[-0.5], [-0.3], [0.4]], dtype=D)
model = CiqGP(Z).to(D)
vs = model.variational_strategy
vs.variational_params_initialized.fill_(1)
m = torch.tensor([0.5, -1.0, 0.3], dtype=D)                 # q(e) = N(m, S) in whitened coordinates
S = torch.tensor([[0.5, 0.1, 0.0], [0.1, 0.4, 0.1], [0.0, 0.1, 0.6]], dtype=D)
with torch.no_grad():
    P = torch.linalg.inv(S)
    vs._variational_distribution.natural_vec.copy_(P @ m)
    vs._variational_distribution.natural_mat.copy_(-0.5 * P)
model.eval()
with torch.no_grad():
    out = model(X)
    kl = vs.kl_divergence()
    # closed form on the model's own prior: u = mz + Kzz^(1/2) e
    j = 1e-6
    Kzz = model.covar_module(Z).to_dense() + j * torch.eye(3, dtype=D)
    Kxz = model.covar_module(X, Z).to_dense()
    Kxx = model.covar_module(X).to_dense() + j * torch.eye(3, dtype=D)
    ev, U = torch.linalg.eigh(Kzz); W = U @ torch.diag(ev.sqrt()) @ U.T
    A = Kxz @ torch.linalg.inv(Kzz)
    cov = Kxx - A @ (Kzz - W @ S @ W.T) @ A.T
    mean = model.mean_module(X) + A @ (W @ m)
    kl_ref = 0.5 * (torch.trace(S) + m @ m - 3 - torch.logdet(S))
print("mean error      ", (out.mean - mean).abs().max().item())
print("variance error  ", (out.variance - cov.diagonal()).abs().max().item())
print("kl_divergence() ", kl.item(), "  closed form KL(q(u) || p(u)) =", kl_ref.item())
print("covariance_matrix returned in eval mode:\n", out.covariance_matrix)
print("closed form covariance:\n", cov)
