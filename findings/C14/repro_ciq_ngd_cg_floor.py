"""CiqVariationalStrategy + NaturalVariationalDistribution (the natural-gradient path, _NgdInterpTerms.forward): the solve with the precision
-2 Theta goes through linear_cg with its default division guard eps = 1e-10.  The right-hand sides are normalised to unit norm, so as soon as the
squared residual (p' A p) falls below 1e-10 - a relative residual of about 1e-5 - alpha is forced to 0 and the iteration stalls: it then burns
max_cg_iterations steps without ever meeting cg_tolerance / eval_cg_tolerance.  The predictive mean (and, less so, variance) keeps an error of
1e-5 .. 1e-3 relative for a dense q(u) with cond(S) of 1e2 .. 1e4, whatever tolerance the user sets.  Lowering eps alone restores 1e-9.

Usage: python repro_ciq_ngd_cg_floor.py   (exit 1 if the floor is present; PYTHONPATH selects the gpytorch tree)"""
import sys
import warnings

import torch

import gpytorch
import gpytorch.variational.ciq_variational_strategy as ciqmod
import linear_operator

warnings.simplefilter("ignore")
D = torch.float64


class CiqGP(gpytorch.models.ApproximateGP):
    def __init__(self, Z):
        vd = gpytorch.variational.NaturalVariationalDistribution(Z.size(-2))
        vs = gpytorch.variational.CiqVariationalStrategy(self, Z, vd, learn_inducing_locations=True)
        super().__init__(vs)
        self.mean_module = gpytorch.means.ConstantMean()
        self.covar_module = gpytorch.kernels.ScaleKernel(gpytorch.kernels.MaternKernel(nu=1.5))

    def forward(self, x):
        return gpytorch.distributions.MultivariateNormal(self.mean_module(x), self.covar_module(x))


def run(M, log10cond, lowered_eps):
    g = torch.Generator().manual_seed(5)
    Z, X = torch.rand(M, 2, generator=g, dtype=D) * 2 - 1, torch.rand(6, 2, generator=g, dtype=D) * 2 - 1
    model = CiqGP(Z).to(D)
    model.covar_module.base_kernel.lengthscale = 0.3
    vs = model.variational_strategy
    vs.variational_params_initialized.fill_(1)
    Q, _ = torch.linalg.qr(torch.randn(M, M, generator=g, dtype=D))
    P = Q @ torch.diag(torch.logspace(0, log10cond, M, dtype=D)) @ Q.T          # precision of q(e), whitened coordinates
    P = 0.5 * (P + P.T)
    S = torch.linalg.inv(P)
    m = torch.randn(M, generator=g, dtype=D) * 0.7
    with torch.no_grad():
        vs._variational_distribution.natural_vec.copy_(P @ m)
        vs._variational_distribution.natural_mat.copy_(-0.5 * P)
    model.eval()
    orig = ciqmod.linear_cg
    if lowered_eps:
        ciqmod.linear_cg = lambda *a, **k: orig(*a, **dict(k, eps=1e-30))
    try:
        LS = linear_operator.settings
        with torch.no_grad(), LS.num_contour_quadrature(30), LS.minres_tolerance(1e-12), LS.cg_tolerance(1e-13), \
                gpytorch.settings.eval_cg_tolerance(1e-13), LS.max_cg_iterations(1000):
            out = model(X)
            mean, var = out.mean.clone(), out.variance.clone()
    finally:
        ciqmod.linear_cg = orig
    with torch.no_grad():
        j = vs.jitter_val
        Kzz = model.covar_module(Z).to_dense() + j * torch.eye(M, dtype=D)
        Kxz = model.covar_module(X, Z).to_dense()
        kxx = model.covar_module(X).to_dense().diagonal() + j
        ev, U = torch.linalg.eigh(Kzz)
        A = Kxz @ (U @ torch.diag(ev.pow(-0.5)) @ U.T)                          # Kxz Kzz^-1/2
        ref_mean = model.mean_module(X) + A @ m
        ref_var = kxx - (A * A).sum(-1) + ((A @ S) * A).sum(-1)
    return ((mean - ref_mean).abs().max() / ref_mean.abs().max()).item(), ((var - ref_var).abs().max() / ref_var.abs().max()).item()


bad = False
for M, c in ((16, 2.0), (24, 2.0), (16, 4.0), (24, 4.0)):
    e0, e1 = run(M, c, False), run(M, c, True)
    print("M=%d cond(S)=1e%d: relative error of mean %.1e, variance %.1e   |   with linear_cg(eps=1e-30): mean %.1e, variance %.1e" % (M, c, e0[0], e0[1], e1[0], e1[1]))
    bad |= e0[0] > 2e-6 or e0[1] > 2e-6
print("VIOLATION: accuracy floor of the NGD-CIQ precision solve (tolerances 1e-13 requested)" if bad else "ok")
sys.exit(1 if bad else 0)
