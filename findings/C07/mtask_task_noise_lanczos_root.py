"""C07 finding (signatures C07/posterior/mtask/*/fast/*/cg/*): multitask exact GP with per-task noises, fast_pred_var on and a
training covariance above max_cholesky_size (here lowered to 0 so that a 6 x 6 system takes the branch of a large one).

The train covariance K (x) B + I (x) D_t (+ s2 I) is a KroneckerProductAddedDiagLinearOperator whose diagonal part is a
KroneckerProductDiagLinearOperator with a NON-constant task factor.  Its root_inv_decomposition (the fast_pred_var cache) is
wrong in that branch (linear_operator 0.6.1, kronecker_product_added_diag_linear_operator.py, `_root_inv_decomposition`, the
`_symmetrize_kpadlt_constructor` branch): R R' differs from (K + noise)^-1 by O(1).  Consequences in GPyTorch:
  * posterior covariances under fast_pred_var differ from the closed form by O(1),
  * after get_fantasy_model (low-rank update of that root) the posterior covariance is NOT positive semi-definite.
With has_task_noise=False (constant diagonal) and on the Cholesky path everything is exact.
Exit 1 when the defect is present."""
import contextlib
import os
import sys
import warnings

sys.path.insert(0, os.environ.get("VERIF_REPO", "/repo"))
import torch  # noqa: E402
import gpytorch  # noqa: E402

warnings.simplefilter("ignore")
torch.set_default_dtype(torch.float64)
T = 2


class M(gpytorch.models.ExactGP):
    def __init__(s, x, y, lik):
        super().__init__(x, y, lik)
        s.mean_module = gpytorch.means.MultitaskMean(gpytorch.means.ZeroMean(), num_tasks=T)
        s.covar_module = gpytorch.kernels.MultitaskKernel(gpytorch.kernels.RBFKernel(), num_tasks=T, rank=1)

    def forward(s, x):
        return gpytorch.distributions.MultitaskMultivariateNormal(s.mean_module(x), s.covar_module(x))


def root_error(task):
    torch.manual_seed(0)
    x = torch.rand(3, 2)
    k = gpytorch.kernels.MultitaskKernel(gpytorch.kernels.RBFKernel(), num_tasks=T, rank=1)
    lik = gpytorch.likelihoods.MultitaskGaussianLikelihood(num_tasks=T, has_task_noise=task)
    with torch.no_grad(), gpytorch.settings.max_cholesky_size(0):
        A = lik(gpytorch.distributions.MultitaskMultivariateNormal(torch.zeros(3, T), k(x))).lazy_covariance_matrix
        R = A.root_inv_decomposition().root.to_dense()
        return float((R @ R.T - torch.linalg.inv(A.to_dense())).abs().max())


def posterior(cg, n, fant):
    torch.manual_seed(1)
    x, y, xs, xn, yn = torch.rand(n, 2), torch.randn(n, T), torch.rand(5, 2), torch.rand(1, 2), torch.randn(1, T)
    lik = gpytorch.likelihoods.MultitaskGaussianLikelihood(num_tasks=T)
    lik.noise = 0.05
    m = M(x, y, lik)
    m.eval()
    with contextlib.ExitStack() as st:
        st.enter_context(torch.no_grad())
        st.enter_context(gpytorch.settings.fast_pred_var())
        if cg:
            st.enter_context(gpytorch.settings.max_cholesky_size(0))
        c = m(xs).covariance_matrix
        if fant:
            c = m.get_fantasy_model(xn, yn)(xs).covariance_matrix
    X, Y = (torch.cat([x, xn]), torch.cat([y, yn])) if fant else (x, y)
    m2 = M(X, Y, lik)
    m2.covar_module = m.covar_module
    m2.eval()
    with torch.no_grad(), gpytorch.settings.fast_pred_var(False):
        ref = m2(xs).covariance_matrix
    return float(torch.linalg.eigvalsh((c + c.T) / 2).min()), float((c - ref).abs().max())


bad = False
for task in (False, True):
    e = root_error(task)
    print("has_task_noise=%-5s above max_cholesky_size: |R R' - (K + noise)^-1| = %.3e" % (task, e))
    bad |= e > 1e-6
for fant in (False, True):
    for n in (3, 20):
        for cg in (False, True):
            lo, err = posterior(cg, n, fant)
            print("%-7s n=%2d %-22s min eig(posterior) = % .3e   |posterior - closed form| = %.3e" % (
                "fantasy" if fant else "plain", n, "above max_cholesky_size" if cg else "Cholesky", lo, err))
            bad |= lo < -1e-6 or err > 1e-4
sys.exit(1 if bad else 0)
