# batch shape (2,) from the data, one shared MultitaskGaussianLikelihood (batch_shape=()) with a noise prior:
# task_noises has shape (T,) = (2,); every batch element should get log p(tn_1) + log p(tn_2) (+ log p(noise)).
import torch, gpytorch
D = torch.float64
torch.manual_seed(0)
T = 2
x = torch.rand(2, 4, 1, dtype=D); y = torch.randn(2, 4, T, dtype=D)
class M(gpytorch.models.ExactGP):
    def __init__(s, x, y, lik):
        super().__init__(x, y, lik)
        s.mean_module = gpytorch.means.MultitaskMean(gpytorch.means.ZeroMean(), num_tasks=T)
        s.covar_module = gpytorch.kernels.MultitaskKernel(gpytorch.kernels.RBFKernel(), num_tasks=T, rank=1)
    def forward(s, x):
        return gpytorch.distributions.MultitaskMultivariateNormal(s.mean_module(x), s.covar_module(x))
lik = gpytorch.likelihoods.MultitaskGaussianLikelihood(num_tasks=T, noise_prior=gpytorch.priors.GammaPrior(3.0, 6.0))
m = M(x, y, lik).to(D)
lik.task_noises = torch.tensor([0.5, 1.5], dtype=D); lik.noise = 0.7
m.train()
mll = gpytorch.mlls.ExactMarginalLogLikelihood(lik, m)
with torch.no_grad():
    out = m(x); marg = lik(out)
    logN = marg.log_prob(y)
    g = torch.distributions.Gamma(torch.tensor(3.0, dtype=D), torch.tensor(6.0, dtype=D))
    print("definition adds", float(g.log_prob(lik.task_noises).sum() + g.log_prob(lik.noise).sum()), "to every batch element; per task:", g.log_prob(lik.task_noises).tolist(), "global", g.log_prob(lik.noise).tolist())
    print("code: N*T*mll - logN =", (mll(out, y) * 4 * T - logN).tolist())
