# batch shape (2,2) coming from the data, ONE shared ARD kernel (batch_shape=(), ard_num_dims=2) with a lengthscale prior:
# every batch element should get log p(l_1) + log p(l_2); the code's view(*shape[:res.ndim], -1) takes the ARD
# dimension for a batch dimension and gives batch element (i, j) only log p(l_j).
import torch, gpytorch
D = torch.float64
torch.manual_seed(0)
x = torch.rand(2, 2, 4, 2, dtype=D); y = torch.randn(2, 2, 4, dtype=D)
class M(gpytorch.models.ExactGP):
    def __init__(s, x, y, lik):
        super().__init__(x, y, lik)
        s.mean_module = gpytorch.means.ZeroMean()
        s.covar_module = gpytorch.kernels.RBFKernel(ard_num_dims=2, lengthscale_prior=gpytorch.priors.GammaPrior(3.0, 6.0))
    def forward(s, x):
        return gpytorch.distributions.MultivariateNormal(s.mean_module(x), s.covar_module(x))
lik = gpytorch.likelihoods.GaussianLikelihood()
m = M(x, y, lik).to(D)
m.covar_module.lengthscale = torch.tensor([[0.5, 1.5]], dtype=D)
m.train()
mll = gpytorch.mlls.ExactMarginalLogLikelihood(lik, m)
with torch.no_grad():
    out = m(x); marg = lik(out)
    logN = torch.distributions.MultivariateNormal(marg.mean, marg.covariance_matrix).log_prob(y)
    lp = torch.distributions.Gamma(torch.tensor(3.0, dtype=D), torch.tensor(6.0, dtype=D)).log_prob(m.covar_module.lengthscale)
    print("log p(l_1), log p(l_2) =", lp.tolist(), " definition adds their sum", float(lp.sum()), "to every batch element")
    print("code: N*mll - logN =\n", (mll(out, y) * 4 - logN))
