"""LeaveOneOutPseudoLikelihood.forward reshapes the marginal mean to the target's shape (m = m.reshape(*target.shape)) instead
of broadcasting the two batch shapes the way ExactMarginalLogLikelihood (MultivariateNormal.log_prob) does.

(1) one GP, a batch of target vectors at the same inputs (y: s x n)              -> RuntimeError (MLL: fine, shape s)
(2) a batch of hyperparameter settings, one shared target vector (y: n)          -> RuntimeError (MLL: fine, shape b)
(3) model batch shape (2, 1), targets of batch shape (2,) [-> objective 2 x 2]   -> NO error, silently wrong values: the mean
    of batch element j is subtracted from the targets paired with batch element i.
Reference: mean over i of log N(y_i; conditional mean / variance given all other observations) by explicit deletion, per
broadcast batch element.  Run from the repository root: python repro_loo_target_batch.py  (exit 1 = defect present)."""
import math
import os
import sys

sys.path.insert(0, os.getcwd())          # the tree in the current directory, not an installed copy
import torch

import gpytorch

D = torch.float64


def model_of(batch, x, y):
    bs = torch.Size(batch)
    lik = gpytorch.likelihoods.GaussianLikelihood(batch_shape=bs)

    class GP(gpytorch.models.ExactGP):
        def __init__(s):
            super().__init__(x, y, lik)
            s.mean_module = gpytorch.means.ConstantMean(batch_shape=bs)
            s.covar_module = gpytorch.kernels.ScaleKernel(gpytorch.kernels.RBFKernel(batch_shape=bs), batch_shape=bs)

        def forward(s, inp):
            return gpytorch.distributions.MultivariateNormal(s.mean_module(inp), s.covar_module(inp))

    model = GP().to(D)
    g = torch.Generator().manual_seed(3)
    with torch.no_grad():
        for p in model.parameters():
            p.copy_(torch.rand(p.shape, generator=g, dtype=D) * 2 - 1)
    model.train()
    return model, lik


def loo_by_deletion(model, lik, x, y):
    n = x.shape[-2]
    A = model.covar_module(x).to_dense() + lik.noise.unsqueeze(-1) * torch.eye(n, dtype=D)
    m = model.mean_module(x)
    ob = torch.broadcast_shapes(A.shape[:-2], m.shape[:-1], y.shape[:-1])
    A, m, y = A.expand(*ob, n, n), m.expand(*ob, n), y.expand(*ob, n)
    tot = 0.0
    for i in range(n):
        o = torch.tensor([j for j in range(n) if j != i])
        Aoo, k = A.index_select(-2, o).index_select(-1, o), A[..., i, :].index_select(-1, o)
        sol = torch.linalg.solve(Aoo, torch.stack([(y - m).index_select(-1, o), k], -1))
        mu, var = m[..., i] + (k * sol[..., 0]).sum(-1), A[..., i, i] - (k * sol[..., 1]).sum(-1)
        tot = tot + (-0.5 * torch.log(2 * math.pi * var) - 0.5 * (y[..., i] - mu) ** 2 / var)
    return tot / n


bad = 0
n = 5
g = torch.Generator().manual_seed(0)
x = torch.rand(n, 2, generator=g, dtype=D)
for name, batch, tb in (("one GP, y: 3 x n", (), (3,)), ("batch of 2 hyperparameter settings, y: n", (2,), ()),
                        ("model batch (2, 1), y: 2 x n", (2, 1), (2,))):
    y = torch.randn(*tb, n, generator=g, dtype=D)
    model, lik = model_of(batch, x, y)
    ref = loo_by_deletion(model, lik, x, y)
    mll = gpytorch.mlls.ExactMarginalLogLikelihood(lik, model)(model(x), y)
    try:
        loo = gpytorch.mlls.LeaveOneOutPseudoLikelihood(lik, model)(model(x), y)
    except RuntimeError as e:
        print("[DEFECT] %s: ExactMarginalLogLikelihood has shape %s, LeaveOneOutPseudoLikelihood raises %s" % (name, list(mll.shape), e))
        bad += 1
        continue
    if loo.shape != ref.shape or not torch.allclose(loo, ref, rtol=1e-9, atol=1e-11):
        print("[DEFECT] %s: LOO %s, by explicit deletion %s" % (name, loo.detach().tolist(), ref.detach().tolist()))
        bad += 1
    else:
        print("[ok] %s" % name)
sys.exit(1 if bad else 0)
