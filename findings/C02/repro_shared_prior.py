# A kernel object used twice in one model: its lengthscale is ONE parameter with ONE registered prior,
# but ExactMarginalLogLikelihood adds its log prior density once per path through the module tree.
import torch, gpytorch
D = torch.float64
torch.manual_seed(0)
x = torch.rand(5, 1, dtype=D); y = torch.randn(5, dtype=D)
class M(gpytorch.models.ExactGP):
    def __init__(s, x, y, lik):
        super().__init__(x, y, lik)
        s.mean_module = gpytorch.means.ZeroMean()
        base = gpytorch.kernels.RBFKernel(lengthscale_prior=gpytorch.priors.GammaPrior(3.0, 6.0))
        s.covar_module = gpytorch.kernels.ScaleKernel(base) + gpytorch.kernels.ScaleKernel(gpytorch.kernels.ProductKernel(base, gpytorch.kernels.LinearKernel()))
    def forward(s, x):
        return gpytorch.distributions.MultivariateNormal(s.mean_module(x), s.covar_module(x))
lik = gpytorch.likelihoods.GaussianLikelihood()
m = M(x, y, lik).to(D); m.train()
mll = gpytorch.mlls.ExactMarginalLogLikelihood(lik, m)
out = m(x); marg = lik(out)
logN = torch.distributions.MultivariateNormal(marg.mean, marg.covariance_matrix).log_prob(y)
ls = [p for n, p in m.named_parameters() if n.endswith("raw_lengthscale")]
base = m.covar_module.kernels[0].base_kernel
logp = torch.distributions.Gamma(torch.tensor(3.0, dtype=D), torch.tensor(6.0, dtype=D)).log_prob(base.lengthscale).sum()
print("parameters named raw_lengthscale:", len(ls), " priors yielded:", [n for n, *_ in m.named_priors()])
print("code  N*mll - logN =", float(mll(out, y) * 5 - logN))
print("definition log p(lengthscale) =", float(logp), " (code adds it %.3f times)" % float((mll(out, y) * 5 - logN) / logp))
