"""Same statement as repro_batch_tasknoise.py / repro_batch2_ard.py (ExactMarginalLogLikelihood._add_other_terms takes the first
res.ndim dimensions of a prior term for batch dimensions), reached through the TARGET: a batch of b hyperparameter settings
evaluated on s target vectors each (y: s x b x n, objective s x b).  The prior term of a batched parameter with own dimensions
(noise b x 1, lengthscale b x 1 x d) is cut to its first TWO dimensions (b x 1), i.e. its batch dimension is paired with the
leading (target-only) dimension of the objective: RuntimeError when s != b, silently transposed prior terms when s == b.
Run from the repository root: python repro_target_extra_dims_prior.py  (exit 1 = defect present)."""
import os
import sys

sys.path.insert(0, os.getcwd())
import torch

import gpytorch

D = torch.float64
b, n = 2, 5
bs = torch.Size([b])
g = torch.Generator().manual_seed(0)
x = torch.rand(n, 2, generator=g, dtype=D)


def build(y, with_prior):
    t = lambda v: torch.tensor(v, dtype=D)
    pr = gpytorch.priors.GammaPrior(t(3.0), t(6.0)) if with_prior else None
    lik = gpytorch.likelihoods.GaussianLikelihood(batch_shape=bs)

    class GP(gpytorch.models.ExactGP):
        def __init__(s):
            super().__init__(x, y, lik)
            s.mean_module = gpytorch.means.ConstantMean(batch_shape=bs)
            s.covar_module = gpytorch.kernels.ScaleKernel(gpytorch.kernels.RBFKernel(batch_shape=bs, lengthscale_prior=pr), batch_shape=bs)

        def forward(s, inp):
            return gpytorch.distributions.MultivariateNormal(s.mean_module(inp), s.covar_module(inp))

    model = GP().to(D)
    model.covar_module.base_kernel.lengthscale = torch.tensor([0.4, 1.5], dtype=D).view(b, 1, 1)
    model.train()
    return model, lik


bad = 0
for s in (3, 2):
    y = torch.randn(s, b, n, generator=g, dtype=D)
    m0, l0 = build(y, False)
    base = gpytorch.mlls.ExactMarginalLogLikelihood(l0, m0)(m0(x), y)          # s x b, no prior
    m1, l1 = build(y, True)
    ls = m1.covar_module.base_kernel.lengthscale.reshape(b)
    want = base + torch.distributions.Gamma(torch.tensor(3.0, dtype=D), torch.tensor(6.0, dtype=D)).log_prob(ls) / n             # prior of setting j goes to column j
    try:
        got = gpytorch.mlls.ExactMarginalLogLikelihood(l1, m1)(m1(x), y)
    except RuntimeError as e:
        print("[DEFECT] y: %d x %d x n: raises %s" % (s, b, e))
        bad += 1
        continue
    if not torch.allclose(got, want, rtol=1e-9, atol=1e-11):
        print("[DEFECT] y: %d x %d x n: objective\n%s\ndefinition\n%s" % (s, b, got.detach(), want.detach()))
        bad += 1
    else:
        print("[ok] y: %d x %d x n" % (s, b))
sys.exit(1 if bad else 0)
