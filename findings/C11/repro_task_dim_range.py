"""C11: MultitaskMultivariateNormal.from_batch_mvn accepts task_dim == len(batch_shape) (off by one in its own range check).

Run from the repository root (or with the repository on sys.path):  python repro_task_dim_range.py
signature  C11/ctor/from_batch_mvn/accepts-invalid-task_dim/task_dim=rank

`task_dim` must name a BATCH dimension of the batch MVN.  The constructor normalises negative values and then rejects
`task_dim < 0 or task_dim > len(batch_shape)`; the upper bound should be `>=`: task_dim == len(batch_shape) is the DATA
dimension of the mean.  For that value no error is raised and an inconsistent object comes back: the mean is the batch
MVN's mean unchanged (last batch dimension read as "points", the n data points read as "tasks"), while the covariance is a
BlockInterleavedLinearOperator over the wrong dimension, so mean and covariance do not describe the same variables.
Exit code 1 if the defect shows."""
import os
import sys
import warnings

sys.path.insert(0, os.getcwd())
warnings.filterwarnings("ignore")
import torch  # noqa: E402
from gpytorch.distributions import MultitaskMultivariateNormal, MultivariateNormal  # noqa: E402

torch.manual_seed(0)
bad = []
for batch_shape in [(2,), (2, 3), (3, 2, 4)]:
    n, r = 5, len(batch_shape)
    mean = torch.randn(*batch_shape, n, dtype=torch.float64)
    A = torch.randn(*batch_shape, n, n, dtype=torch.float64)
    mvn = MultivariateNormal(mean, A @ A.mT + n * torch.eye(n, dtype=torch.float64))
    for task_dim in (r, r + 1, -r - 1):
        try:
            d = MultitaskMultivariateNormal.from_batch_mvn(mvn, task_dim=task_dim)
        except ValueError as e:
            print("batch_shape=%s task_dim=%d: ValueError (%s)" % (batch_shape, task_dim, e))
            continue
        print("batch_shape=%s task_dim=%d: NO ERROR; result batch_shape=%s event_shape=%s (n x t), covariance %s; variance of the 'pairs' %s the diagonal of the source" % (
            batch_shape, task_dim, tuple(d.batch_shape), tuple(d.event_shape), tuple(d.covariance_matrix.shape),
            "==" if torch.allclose(d.variance.reshape(-1), mvn.variance.reshape(-1)) else "!="))
        bad.append((batch_shape, task_dim))
print("DEFECT: accepted task_dim values that name no batch dimension: %s" % bad if bad else "ok: every out-of-range task_dim is rejected")
sys.exit(1 if bad else 0)
