"""C11: MultitaskMultivariateNormal.__getitem__ with an INDEX TENSOR in a batch position and slices for the event dimensions.

Run from the repository root (or with the repository on sys.path):  python repro_batch_index_tensor.py
signatures  C11/getitem/{interleaved,non-interleaved}/b.tensorxslice/{raises,cov-entries}
            C11/getitem/{interleaved,non-interleaved}/b.tensorxslicex:/{raises,cov-entries}
            C11/getitem/{interleaved,non-interleaved}/b.tensorx:xslice/{raises,cov-entries}
            C11/getitem/{interleaved,non-interleaved}/b.tensorxslicexslice/{raises,cov-entries}

For a batched distribution d (mean of shape b x n x t), d[tensor([1, 0]), 1:] selects the batch members in the order 1, 0
and the points 1.. of each: mean[idx] is valid.  Whenever the two event indices are slices that are not both the literal
`:` (the meshgrid branch of __getitem__), the covariance is computed as cov[batch_idx + (indices,)][..., indices]; with an
index tensor among batch_idx torch ZIPS that tensor with `indices` instead of taking their product.  The call then raises a
broadcasting RuntimeError (lengths differ) or silently returns the covariance of other (point, task) pairs (lengths agree).
int x slice, slice x int, int x int and `:, :` behind a batch index tensor are right (they use slices, which do not zip).
Exit code 1 if the defect shows."""
import itertools
import os
import sys
import warnings

sys.path.insert(0, os.getcwd())
warnings.filterwarnings("ignore")
import torch  # noqa: E402
from gpytorch.distributions import MultitaskMultivariateNormal  # noqa: E402

torch.manual_seed(0)
dt = torch.float64
b, n, t = 2, 3, 2
bad, checked = [], 0
for interleaved in (True, False):
    a = torch.randn(b, n * t, n * t, dtype=dt)
    covar = a @ a.mT + torch.eye(n * t, dtype=dt)
    mean = torch.randn(b, n, t, dtype=dt)
    d = MultitaskMultivariateNormal(mean, covar, interleaved=interleaved)
    batch_tensors = [torch.tensor([1, 0]), torch.tensor([-1])]
    event = [(slice(1, None),), (slice(None, 3),), (slice(0, 2), slice(1, None)), (slice(None), slice(1, None)),
             (slice(None, None, 2), slice(None)), (slice(None, -1), slice(None)), (slice(None), slice(None)), (0, slice(1, None)),
             (slice(1, None), -1)]
    pg = torch.arange(n).reshape(n, 1).expand(n, t)
    tg = torch.arange(t).reshape(1, t).expand(n, t)
    for tb, ev in itertools.product(batch_tensors, event):
        idx = (tb,) + ev
        checked += 1
        ref_mean = mean[idx]
        ev2 = ev + (slice(None),) * (2 - len(ev))
        pts, tks = pg[ev2], tg[ev2]
        as_mt = pts.dim() == 2
        if as_mt and not interleaved:
            pts, tks = pts.T, tks.T                    # rows of the result are task-major
        flat = (pts * t + tks if interleaved else tks * n + pts).reshape(-1)
        ref_cov = torch.stack([covar[int(m)][flat][:, flat] for m in (tb % b)])
        show = "interleaved=%s d[%s]" % (interleaved, ", ".join(str(i.tolist()) if torch.is_tensor(i) else str(i) for i in idx))
        try:
            r = d[idx]
            got_mean, got_cov = r.mean, r.covariance_matrix
        except Exception as e:  # noqa: BLE001
            bad.append(show)
            print("%s: mean[idx] has shape %s but d[idx] raised %s: %s" % (show, tuple(ref_mean.shape), type(e).__name__, str(e)[:90]))
            continue
        ok = got_mean.shape == ref_mean.shape and torch.equal(got_mean, ref_mean) and got_cov.shape == ref_cov.shape and torch.allclose(got_cov, ref_cov)
        if not ok:
            bad.append(show)
            print("%s: covariance %s is not the sub-matrix of the selected (point, task) pairs of batch members %s" % (show, tuple(got_cov.shape), (tb % b).tolist()))
print("checked %d index expressions" % checked)
print("DEFECT: %d index expressions with a batch index tensor raise or return the wrong covariance" % len(bad) if bad else "ok")
sys.exit(1 if bad else 0)
