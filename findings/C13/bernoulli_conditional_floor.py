"""C13/condf/Bernoulli/log_prob, C13/condf/Bernoulli/gradient

BernoulliLikelihood.forward returns Bernoulli(probs=Phi(f)).  torch clamps probability parameters to [eps, 1 - eps], so the
log-density of the returned conditional is floored at log(eps) = -36.04 and its gradient with respect to f is exactly 0 once
the observed label is confidently contradicted (|f| >= ~8.3): log p(y=0 | f=10) = -36.04 instead of log Phi(-10) = -53.23,
gradient 0 instead of -10.10.  The documented conditional is p(Y=y | f) = Phi((2y - 1) f) for every f.
(The same construction in BernoulliLikelihood.marginal floors log_marginal at -36.04 for |m| / sqrt(1 + v) >= ~8.3.)

Run: /venv/bin/python /verif/findings/C13/bernoulli_conditional_floor.py      (exit 1 while the defect is present)
"""
import sys

import mpmath as mp
import torch

import gpytorch

mp.mp.dps = 30
D = torch.float64
torch.set_default_dtype(D)
lik = gpytorch.likelihoods.BernoulliLikelihood()
bad = 0
for fv, yv in ((10.0, 0.0), (-10.0, 1.0), (100.0, 0.0), (-1000.0, 1.0), (3.0, 0.0), (-0.5, 1.0)):
    f = torch.tensor([fv], dtype=D, requires_grad=True)
    lp = lik(f).log_prob(torch.tensor([yv], dtype=D))
    g, = torch.autograd.grad(lp.sum(), f)
    s = 2 * yv - 1
    want = mp.log(mp.ncdf(mp.mpf(s * fv)))
    dwant = s * mp.npdf(mp.mpf(s * fv)) / mp.ncdf(mp.mpf(s * fv))
    ok = abs(lp.item() - float(want)) <= 1e-9 * (1 + abs(float(want))) and abs(float(g) - float(dwant)) <= 1e-9 * (1 + abs(float(dwant)))
    bad += not ok
    print("%s f=%-7g y=%d  log_prob=%-20.12g documented=%-20.12g  d/df=%-18.10g documented=%-18.10g" % ("ok  " if ok else "FAIL", fv, yv, lp.item(), float(want), float(g), float(dwant)))
sys.exit(1 if bad else 0)
