# ConstantKernel.forward expands the constant to broadcast(x1 batch, x2 batch) and forgets its own batch_shape
import sys; sys.path.insert(0, sys.argv[1] if len(sys.argv) > 1 else "/repo")
import torch, gpytorch
k = gpytorch.kernels.ConstantKernel(batch_shape=torch.Size([2])).double()
x = torch.rand(4, 3, dtype=torch.float64)                       # shared, non-batched inputs
print("lazy shape:", tuple(k(x).shape))                         # (2, 4, 4) - what every other kernel returns
try:
    print(tuple(k(x).to_dense().shape))
except RuntimeError as e:
    print("RuntimeError:", str(e)[:160])
print("RBFKernel on the same data:", tuple(gpytorch.kernels.RBFKernel(batch_shape=torch.Size([2])).double()(x).to_dense().shape))
