# Kernel.__call__(diag=True): "did the kernel eat diag?" compares res.dim() with x1.dim(), not with the broadcast batch
import sys; sys.path.insert(0, sys.argv[1] if len(sys.argv) > 1 else "/repo")
import torch, gpytorch
k = gpytorch.kernels.RBFKernel(batch_shape=torch.Size([3])).double()
k.lengthscale = torch.tensor([0.5, 1.0, 2.0], dtype=torch.float64).view(3, 1, 1)
x = torch.rand(3, 2, dtype=torch.float64); x2 = x + 0.1        # n = 3 rows == batch size 3, inputs not batched
want = k(x, x2).to_dense().diagonal(dim1=-1, dim2=-2)
got = k(x, x2, diag=True)
print("(a) rows == batch size: diag shape", tuple(got.shape), "expected", tuple(want.shape))
x4 = torch.rand(4, 2, dtype=torch.float64)
print("    with 4 rows:        diag shape", tuple(k(x4, x4 + 0.1, diag=True).shape))
ik = gpytorch.kernels.IndexKernel(num_tasks=3, rank=1, batch_shape=torch.Size([2])).double()
i = torch.tensor([[0.], [2.], [1.], [1.]], dtype=torch.float64)
print("(b) kernel ignoring diag (IndexKernel, batch_shape (2,), non-batched index): diag shape", tuple(ik(i, diag=True).shape),
      "expected", tuple(ik(i).to_dense().diagonal(dim1=-1, dim2=-2).shape))
