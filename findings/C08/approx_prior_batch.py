# _ApproximateMarginalLogLikelihood.forward (VariationalELBO, PredictiveLogLikelihood, GammaRobustVariationalELBO):
#     log_prior.add_(prior.log_prob(closure(module)).sum().div(self.num_data))
# sums the log prior over EVERY batch element of the parameter and adds the total to every element of the batched objective: element b
# of the ELBO of a batch of independent models contains the log priors of all the other models' hyperparameters
# (ExactMarginalLogLikelihood keeps the batch axes).  exit 1 = defect present
import sys; sys.path.insert(0, sys.argv[1] if len(sys.argv) > 1 else "/repo")
import warnings
warnings.filterwarnings("ignore")
import torch, gpytorch
from gpytorch import kernels as K, means, likelihoods as L, priors as PR, mlls as M, variational as V
torch.set_default_dtype(torch.float64)
S, n, d, m = torch.Size, 5, 2, 3


class SV(gpytorch.models.ApproximateGP):
    def __init__(self, Z, B):
        super().__init__(V.VariationalStrategy(self, Z, V.CholeskyVariationalDistribution(m, batch_shape=S(B)), learn_inducing_locations=True))
        self.mean_module = means.ConstantMean(batch_shape=S(B))
        self.covar_module = K.ScaleKernel(K.RBFKernel(batch_shape=S(B), lengthscale_prior=PR.GammaPrior(3.0, 2.0)), batch_shape=S(B),
                                          outputscale_prior=PR.GammaPrior(2.0, 3.0))

    def forward(self, x):
        return gpytorch.distributions.MultivariateNormal(self.mean_module(x), self.covar_module(x))


g = torch.Generator().manual_seed(0)
B = (2,)
x, y, Z = torch.rand(*B, n, d, generator=g), torch.randn(*B, n, generator=g), torch.rand(*B, m, d, generator=g)
mb, lb = SV(Z, B), L.GaussianLikelihood(batch_shape=S(B))
for p in list(mb.parameters()) + list(lb.parameters()):
    p.data = torch.rand(p.shape, generator=g) * 2 - 1
mb.variational_strategy.inducing_points.data = Z.clone()
mb.variational_strategy.variational_params_initialized.fill_(1)
mb.train(), lb.train()
bad = 0
for cls in (M.VariationalELBO, M.PredictiveLogLikelihood, M.GammaRobustVariationalELBO):
    ll, kl, lp = cls(lb, mb, num_data=17, combine_terms=False)(mb(x), y)
    for b in range(B[0]):
        mr, lr = SV(Z[b], ()), L.GaussianLikelihood()
        for src, dst in ((mb, mr), (lb, lr)):
            for (_, q), (_, p) in zip(src.named_parameters(), dst.named_parameters()):
                p.data = q.data[b].clone()
        mr.variational_strategy.variational_params_initialized.fill_(1)
        mr.train(), lr.train()
        rll, rkl, rlp = cls(lr, mr, num_data=17, combine_terms=False)(mr(x[b]), y[b])
        print("%-27s element %d: data term %+.6f / replica %+.6f   KL %.6f / %.6f   log prior %+.6f / replica %+.6f" % (
            cls.__name__, b, ll[b], rll, kl[b], rkl, lp[b], rlp))
        bad += abs(float(lp[b] - rlp)) > 1e-9
sys.exit(1 if bad else 0)
