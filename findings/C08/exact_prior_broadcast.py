# ExactMarginalLogLikelihood._add_other_terms (also used by LeaveOneOutPseudoLikelihood) reduces the log prior of a parameter with
#     prior_term.view(*prior_term.shape[:res.ndim], -1).sum(dim=-1)
# i.e. it keeps the first res.ndim axes of the parameter WHATEVER they are.  When the data have more batch dimensions than the
# parameters (hyperparameters shared by / broadcast over a batch of data sets) the kept axes are not the parameter's batch axes:
# element [i, j] of the objective gets the log prior of parameter element i instead of j (or a single ARD component instead of the
# sum over the components), or the in-place add raises.  Without priors the same models are fine.
# exit 1 = defect present
import sys; sys.path.insert(0, sys.argv[1] if len(sys.argv) > 1 else "/repo")
import itertools, warnings
warnings.filterwarnings("ignore")
import torch, gpytorch
from gpytorch import kernels as K, means, likelihoods as L, priors as PR, mlls as M
torch.set_default_dtype(torch.float64)
S, n, d = torch.Size, 5, 2


class GP(gpytorch.models.ExactGP):
    def __init__(self, x, y, B):
        super().__init__(x, y, L.GaussianLikelihood(batch_shape=S(B), noise_prior=PR.GammaPrior(1.5, 2.0)))
        self.mean_module = means.ConstantMean(batch_shape=S(B))
        self.covar_module = K.ScaleKernel(K.RBFKernel(ard_num_dims=d, batch_shape=S(B), lengthscale_prior=PR.GammaPrior(3.0, 2.0)), batch_shape=S(B))

    def forward(self, x):
        return gpytorch.distributions.MultivariateNormal(self.mean_module(x), self.covar_module(x))


def unb(b, s):
    return tuple(0 if s[k] == 1 else b[len(b) - len(s) + k] for k in range(len(s)))


def run(cls, P, D):
    g = torch.Generator().manual_seed(0)
    Y = tuple(torch.broadcast_shapes(P, D))
    x, y = torch.rand(*D, n, d, generator=g), torch.randn(*Y, n, generator=g)
    mb = GP(x, y, P)
    for p in mb.parameters():
        p.data = torch.rand(p.shape, generator=g) * 2 - 1
    try:
        ob = cls(mb.likelihood, mb)(mb(x), y)
    except RuntimeError as e:
        return "raises RuntimeError: " + str(e)[:90]
    worst = 0.0
    for b in itertools.product(*[range(s) for s in Y]):
        mr = GP(x[unb(b, D)], y[b], ())
        for (_, q), (_, p) in zip(mb.named_parameters(), mr.named_parameters()):
            p.data = q.data[unb(b, P)].clone() if len(P) else q.data.clone()
        worst = max(worst, (ob[b] - cls(mr.likelihood, mr)(mr(x[unb(b, D)]), y[b])).abs().item())
    return "agrees with the replicas" if worst < 1e-9 else "element differs from its replica by %.3e" % worst


bad = 0
for cls in (M.ExactMarginalLogLikelihood, M.LeaveOneOutPseudoLikelihood):
    for P, D in (((2,), (2,)), ((3, 2), (3, 2)), ((2,), (2, 2)), ((2,), (3, 2)), ((), (3, 2)), ((), (2, 3))):
        r = run(cls, P, D)
        print("%-28s parameters batch %-7s data batch %-7s: %s" % (cls.__name__, P, D, r))
        bad += not r.startswith("agrees")
sys.exit(1 if bad else 0)
