# ScaleKernel with a batch shape of unit axes (batch_shape=[1], [1, 1]) over a base kernel that returns a LinearOperator (LinearKernel,
# sums containing it, another ScaleKernel over it) and has FEWER batch axes: forward computes orig_output.mul(outputscale.view(..., 1, 1));
# LinearOperator.mul treats a one-element tensor as a scalar (other.squeeze()), so the unit batch axes the ScaleKernel owns are dropped.
# Lazily the kernel then raises "The expected shape of the kernel was ..., but got ... This is likely a bug in GPyTorch"; eagerly it
# returns a matrix without the batch axes.  The same kernel over RBFKernel (dense base output) or with batch_shape=[2] is fine.
# exit 1 = defect present
import sys; sys.path.insert(0, sys.argv[1] if len(sys.argv) > 1 else "/repo")
import torch, gpytorch
from gpytorch.kernels import LinearKernel, RBFKernel, ScaleKernel
x1 = torch.rand(4, 2, dtype=torch.float64)
x2 = torch.rand(3, 2, dtype=torch.float64)
bad = 0
for base in (LinearKernel, RBFKernel):
    for bs in ([1], [1, 1], [2]):
        k = ScaleKernel(base(), batch_shape=torch.Size(bs)).double()
        want = tuple(bs) + (4, 3)                       # kernel.batch_shape + (n, m): one matrix per replica
        try:
            lazy = tuple(k(x1, x2).to_dense().shape)
        except RuntimeError as e:
            lazy = "RuntimeError: " + str(e)[:110]
        with gpytorch.settings.lazily_evaluate_kernels(False):
            eager = tuple(k(x1, x2).shape)
        ok = lazy == want and eager == want
        bad += 0 if ok else 1
        print("ScaleKernel(%s(), batch_shape=%s): batch_shape=%s want %s | lazy: %s | eager: %s%s" % (
            base.__name__, bs, tuple(k.batch_shape), want, lazy, eager, "" if ok else "   <-- differs"))
sys.exit(1 if bad else 0)
