# MultitaskKernel.forward tiles (repeat) the task covariance by the batch shape of x1 although it already carries batch_shape
import sys; sys.path.insert(0, sys.argv[1] if len(sys.argv) > 1 else "/repo")
import torch, gpytorch
B = torch.Size([2])
k = gpytorch.kernels.MultitaskKernel(gpytorch.kernels.RBFKernel(batch_shape=B), num_tasks=2, rank=1, batch_shape=B).double()
x = torch.rand(2, 4, 3, dtype=torch.float64)                   # one input set per batch element
print("lazy shape:", tuple(k(x).shape))
try:
    print(tuple(k(x).to_dense().shape))
except RuntimeError as e:
    print("RuntimeError:", str(e)[:160])
print("non-batched inputs work:", tuple(k(x[0]).to_dense().shape))
