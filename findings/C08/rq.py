# RQKernel: alpha is unsqueezed "rank(dist) - rank(batch_shape) - 1" times, i.e. LEFT-aligned against the data batch
import sys; sys.path.insert(0, sys.argv[1] if len(sys.argv) > 1 else "/repo")
import torch, gpytorch
torch.manual_seed(0)
k = gpytorch.kernels.RQKernel(batch_shape=torch.Size([2])).double()
k.alpha = torch.tensor([0.5, 3.0], dtype=torch.float64).view(2, 1)
k.lengthscale = torch.tensor([0.7, 1.3], dtype=torch.float64).view(2, 1, 1)
def replica(i):
    r = gpytorch.kernels.RQKernel().double()
    r.alpha = k.alpha[i].detach(); r.lengthscale = k.lengthscale[i].detach()
    return r
for shape in [(2,), (2, 2), (3, 2), (1, 2)]:          # data batch shapes, all broadcastable with (2,)
    x = torch.rand(*shape, 4, 2, dtype=torch.float64)
    try:
        K = k(x).to_dense()
        want = torch.stack([replica(b[-1])(x[b]).to_dense() for b in [tuple(i) for i in torch.cartesian_prod(*[torch.arange(s) for s in shape]).reshape(-1, len(shape)).tolist()]]).reshape(*shape, 4, 4)
        print("x batch %-7s -> K %s  max|K - replicas| = %.3g" % (shape, tuple(K.shape), (K - want).abs().max()))
    except RuntimeError as e:
        print("x batch %-7s -> RuntimeError: %s" % (shape, str(e)[:110]))
