"""C01/noise/fixed,noise=-,test-size/skip_posterior_variances/raises

FixedNoiseGaussianLikelihood called on a posterior whose size differs from the stored noise and WITHOUT a call-time noise is documented
(by its own warning) as a no-op: "This is treated as a no-op."  Under settings.skip_posterior_variances(True) the posterior covariance is a
ZeroLinearOperator and the no-op noise is the shapeless ZeroLinearOperator() returned by FixedGaussianNoise.forward: their sum is the shapeless
operand and the call raises instead of returning the posterior unchanged.  Run from the repository root: exits 1 when the defect is present."""
import os, sys; sys.path.insert(0, os.getcwd())  # noqa: E401,E702
import warnings

import torch

import gpytorch

warnings.simplefilter("ignore")
D = torch.float64


class Model(gpytorch.models.ExactGP):
    def __init__(self, x, y, lik):
        super().__init__(x, y, lik)
        self.mean_module = gpytorch.means.ConstantMean()
        self.covar_module = gpytorch.kernels.ScaleKernel(gpytorch.kernels.RBFKernel())

    def forward(self, x):
        return gpytorch.distributions.MultivariateNormal(self.mean_module(x), self.covar_module(x))


torch.manual_seed(0)
x, y, xs = torch.rand(5, 1, dtype=D), torch.randn(5, dtype=D), torch.rand(3, 1, dtype=D)
lik = gpytorch.likelihoods.FixedNoiseGaussianLikelihood(noise=0.1 + 0.1 * torch.rand(5, dtype=D))
model = Model(x, y, lik).to(D)
model.eval()
lik.eval()
bad = False
with torch.no_grad():
    post = model(xs)
    pred = lik(post)          # 3 test points, 5 stored noises, no noise=: warned no-op
    print("default settings: added noise", float((pred.covariance_matrix - post.covariance_matrix).abs().max()))
    with gpytorch.settings.skip_posterior_variances(True):
        post = model(xs)
        try:
            pred = lik(post)
            cov = pred.covariance_matrix
            print("skip_posterior_variances: covariance", tuple(cov.shape), float(cov.abs().max()))
            bad = tuple(cov.shape) != (3, 3) or float(cov.abs().max()) != 0.0
        except Exception as e:
            import traceback
            traceback.print_exc()
            print("VIOLATION: the documented no-op raises under skip_posterior_variances: %s: %s" % (type(e).__name__, e))
            bad = True
sys.exit(1 if bad else 0)
