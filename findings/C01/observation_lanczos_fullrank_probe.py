"""OBSERVATION (not a C01 violation of /repo; the behaviour lives in linear_operator/utils/lanczos.py of the installed linear_operator).

fast_pred_var with max_root_decomposition_size >= n ("full rank", where Lanczos is an exact algorithm) returns a posterior covariance
that depends on the random probe vector: lanczos_tridiag stops early when `beta <= 1e-6` or when ten re-orthogonalisation passes leave an
inner product > 1e-5, and the root then misses a direction.  On this fixed-noise model with n = 804 the root has rank 803 for some probes
and the predictive covariance is off by 1e-3; for the other probes it is exact to 1e-7.  The C01 check therefore promises nothing for the
Lanczos covariance above n = 800 and, below, fails a full-rank cell only when 4 independent probes all miss the tolerance.

Run:  cd /repo && /venv/bin/python /verif/findings/C01/observation_lanczos_fullrank_probe.py
"""
import math
import warnings

warnings.filterwarnings("ignore")
import torch
import gpytorch

torch.set_num_threads(1)
D = torch.float64
n, ns = 804, 4
g = torch.Generator().manual_seed(292)          # the instance of the C01 replay (checks/c01_knobs.build, family matern/fixed)
side = 4.0 * math.sqrt(n / 60.0)
X, Xs = torch.rand(n, 2, generator=g, dtype=D) * side, torch.rand(ns, 2, generator=g, dtype=D) * side
y = torch.sin(X.sum(-1)) + 0.3 * torch.randn(n, generator=g, dtype=D)
outputscale = 1.0 + 0.6 * float(torch.rand(1, generator=g))
lengthscale = 0.5 + 0.3 * float(torch.rand(1, generator=g))
noise = outputscale * (0.05 + 0.04 * float(torch.rand(1, generator=g))) * (1 + 0.5 * torch.rand(n, generator=g, dtype=D))


class GP(gpytorch.models.ExactGP):
    def __init__(self, x, yy, lik):
        super().__init__(x, yy, lik)
        self.mean_module = gpytorch.means.ConstantMean()
        self.covar_module = gpytorch.kernels.ScaleKernel(gpytorch.kernels.MaternKernel(nu=2.5))

    def forward(self, x):
        return gpytorch.distributions.MultivariateNormal(self.mean_module(x), self.covar_module(x))


lik = gpytorch.likelihoods.FixedNoiseGaussianLikelihood(noise=noise)
model = GP(X, y, lik).to(D)
model.covar_module.outputscale = outputscale
model.covar_module.base_kernel.lengthscale = lengthscale
model.eval(), lik.eval()
with torch.no_grad():
    K = lambda a, b: model.covar_module(a, b).to_dense()
    A = K(X, X) + torch.diag(noise)
    print("n = %d, outputscale %.3f, lengthscale %.3f, noise %.3f..%.3f" % (n, outputscale, lengthscale, noise.min(), noise.max()))
    ref = K(Xs, Xs) - K(Xs, X) @ torch.linalg.solve(A, K(X, Xs))
    print("cond(Kxx+S) = %.0f" % torch.linalg.cond(A))
    for probe in (292, 1, 2, 3, 4, 5):
        torch.manual_seed(probe)
        model.train(), model.eval()
        with gpytorch.settings.fast_pred_var(True), gpytorch.settings.max_root_decomposition_size(n):   # n > max_cholesky_size: Lanczos root
            cov = model(Xs).covariance_matrix
            rank = model.prediction_strategy.covar_cache.shape[-1]
        print("probe seed %d: Lanczos rank %d of %d, max |cov - conditional| = %.2e" % (probe, rank, n, (cov - ref).abs().max()))
