# standalone reproduction of C05/dims/ldb/raises/polynomial-* (run: PYTHONPATH=/repo python repro_c05_dims.py; exit 1 = defect present)
# PolynomialKernel with a batch shape and last_dim_is_batch=True (the documented "... x K x N x M" stack of one-dimensional kernels):
# the offset, shaped batch_shape x 1 x 1, is added to the batch_shape x K x N x M stack WITHOUT a unit axis for K, so the batch axis of the
# offset is aligned with the kernel dimension K: a RuntimeError when batch size != K, and - silently - the offset of batch element k used for
# input dimension k of every batch element when batch size == K.
import sys
import warnings

import torch

import gpytorch

warnings.filterwarnings("ignore")
D = torch.float64
torch.manual_seed(0)
bad = 0


def reference(x1, x2, offset, power):
    # K one-dimensional polynomial kernels (x_t y_t + c_b)^p, stacked as b x K x N x M
    return torch.stack([(x1[..., :, None, t] * x2[..., None, :, t] + offset[..., None]) ** power for t in range(x1.shape[-1])], dim=-3)


for b, kd in ((2, 3), (3, 3)):
    x1, x2 = torch.rand(b, 4, kd, dtype=D), torch.rand(b, 5, kd, dtype=D)
    k = gpytorch.kernels.PolynomialKernel(power=2, batch_shape=torch.Size([b])).to(D)
    k.offset = torch.linspace(0.5, 1.5, b, dtype=D).view(b, 1)
    want = reference(x1, x2, k.offset.detach(), 2)
    for diag in (False, True):
        w = reference(x1, x1, k.offset.detach(), 2).diagonal(dim1=-1, dim2=-2) if diag else want
        try:
            got = k(x1, diag=True, last_dim_is_batch=True) if diag else k(x1, x2, last_dim_is_batch=True).to_dense()
            err = (got.detach() - w).abs().max().item()
            print("batch %d, K = %d, diag=%s: shape %s, max |code - formula| = %.3e" % (b, kd, diag, tuple(got.shape), err))
            bad += err > 1e-9
        except Exception as e:
            print("batch %d, K = %d, diag=%s: raises %s: %s" % (b, kd, diag, type(e).__name__, str(e)[:110]))
            bad += 1
# the structure kernels inherit it
k = gpytorch.kernels.AdditiveStructureKernel(gpytorch.kernels.PolynomialKernel(power=2, batch_shape=torch.Size([2])), num_dims=3).to(D)
try:
    k(torch.rand(2, 4, 3, dtype=D)).to_dense()
    print("AdditiveStructureKernel(PolynomialKernel(batch_shape=[2])) on 2 x 4 x 3 inputs: ok")
except Exception as e:
    print("AdditiveStructureKernel(PolynomialKernel(batch_shape=[2])) on 2 x 4 x 3 inputs: raises %s: %s" % (type(e).__name__, str(e)[:110]))
    bad += 1

# C05/dims/ldb/{raises,shape}/sm-*-diag: SpectralMixtureKernel(x, diag=True, last_dim_is_batch=True).  forward() permutes the last THREE axes
# (the n x m x d layout of the full matrix) also when diag=True, where the result is ... x n x d: without a batch axis it raises, with batch axes
# the feature axis is moved in front of the last BATCH axis (K x b x N instead of the documented b x K x N).
print()
for b in ((), (2,)):
    kd, n = 3, 4
    x = torch.rand(*b, n, kd, dtype=D)
    k = gpytorch.kernels.SpectralMixtureKernel(num_mixtures=2, ard_num_dims=kd).to(D)
    k.mixture_weights = torch.tensor([0.3, 0.7], dtype=D)
    k.mixture_means = torch.linspace(0.1, 0.8, 2 * kd, dtype=D).view(2, 1, kd)
    k.mixture_scales = torch.linspace(0.2, 0.6, 2 * kd, dtype=D).view(2, 1, kd)
    full = k(x, last_dim_is_batch=True).to_dense().detach()              # ... x K x N x N (correct: equals the documented 1-d mixtures)
    want = full.diagonal(dim1=-1, dim2=-2)                                # ... x K x N
    try:
        got = k(x, diag=True, last_dim_is_batch=True).detach()
        same = tuple(got.shape) == tuple(want.shape) and (got - want).abs().max().item() < 1e-9
        print("SpectralMixtureKernel diag + last_dim_is_batch, batch %s: shape %s, documented %s -> %s" % (b, tuple(got.shape), tuple(want.shape), "ok" if same else "WRONG"))
        bad += not same
    except Exception as e:
        print("SpectralMixtureKernel diag + last_dim_is_batch, batch %s: raises %s: %s" % (b, type(e).__name__, str(e)[:100]))
        bad += 1
sys.exit(1 if bad else 0)
