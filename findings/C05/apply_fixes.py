import sys
wt = sys.argv[1]
def sub(path, old, new, count=1):
    p = wt + "/" + path; s = open(p).read(); assert s.count(old) >= 1, (path, old[:40]); open(p, "w").write(s.replace(old, new) if count == 0 else s.replace(old, new, count))
# 1 piecewise polynomial q = 2
sub("gpytorch/kernels/piecewise_polynomial_kernel.py", "((j + 4 * j + 3) / 3.0)", "((j**2 + 4 * j + 3) / 3.0)")
# 2 RBFKernelGradGrad for n1 != n2: the transposed Kronecker factors must be built with (n1, n2) ones, not by transposing the (n1 d, n2 d) matrix
sub("gpytorch/kernels/rbf_kernel_gradgrad.py", """            K_31 = (-douter1dx2.transpose(-1, -2) + outer2 * outer2) * K_11.repeat(""",
"""            douter2dx1 = KroneckerProductLinearOperator(
                (torch.ones(1, d, device=x1.device, dtype=x1.dtype).repeat(*batch_shape, 1, 1) / self.lengthscale.pow(2)).transpose(-1, -2),
                torch.ones(n1, n2, device=x1.device, dtype=x1.dtype).repeat(*batch_shape, 1, 1),
            ).to_dense()
            K_31 = (-douter2dx1 + outer2 * outer2) * K_11.repeat(""")
sub("gpytorch/kernels/rbf_kernel_gradgrad.py", """            # II may not be the correct thing to use. It might be more appropriate to use kp instead??""",
"""            kp2_t = KroneckerProductLinearOperator(
                (torch.ones(d, d, device=x1.device, dtype=x1.dtype).repeat(*batch_shape, 1, 1) / self.lengthscale.pow(2)).transpose(-1, -2),
                torch.ones(n1, n2, device=x1.device, dtype=x1.dtype).repeat(*batch_shape, 1, 1),
            ).to_dense()
            # II may not be the correct thing to use. It might be more appropriate to use kp instead??""")
sub("gpytorch/kernels/rbf_kernel_gradgrad.py", "kp2.transpose(-1, -2)", "kp2_t", 0)
# 3 HammingIMQKernel with batch shapes
sub("gpytorch/kernels/hamming_kernel.py", """        return ((1 + self.alpha) / (self.alpha + dist)).pow(self.beta)""",
"""        extra = [1] * (dist.dim() - len(self.batch_shape) - 1)
        alpha = self.alpha.view(*self.batch_shape, 1, *extra)
        beta = self.beta.view(*self.batch_shape, 1, *extra)
        return ((1 + alpha) / (alpha + dist)).pow(beta)""")
sub("gpytorch/kernels/hamming_kernel.py", """                skip_dims = [-1] * len(self.batch_shape)
                return res.expand(*skip_dims, x1.size(-3))""",
"""                out_batch = torch.broadcast_shapes(x1.shape[:-3], self.batch_shape)
                return res.expand(*out_batch, x1.size(-3))""")
# 4 ProductStructureKernel diag
sub("gpytorch/kernels/product_structure_kernel.py", """        res = super().__call__(x1_, x2_, diag=diag, last_dim_is_batch=last_dim_is_batch, **params)
        res = to_linear_operator(res).evaluate_kernel()""",
"""        res = super().__call__(x1_, x2_, diag=diag, last_dim_is_batch=last_dim_is_batch, **params)
        if diag:
            return res
        res = to_linear_operator(res).evaluate_kernel()""")
# 5 sum_interaction_terms default max_degree
sub("gpytorch/utils/sum_interaction_terms.py", """    covars = to_dense(covars)
""", """    covars = to_dense(covars)
    if max_degree is None:
        max_degree = covars.size(dim)
    max_degree = min(max_degree, covars.size(dim))
""")
# 6 Kernel.__call__ diag heuristic with last_dim_is_batch
sub("gpytorch/kernels/kernel.py", """                if res.dim() == x1_.dim() and res.shape[-2:] == torch.Size((x1_.size(-2), x2_.size(-2))):""",
"""                full_dim = x1_.dim() + (1 if last_dim_is_batch else 0)
                if res.dim() == full_dim and res.shape[-2:] == torch.Size((x1_.size(-2), x2_.size(-2))):""")
# 7 NewtonGirardAdditiveKernel work dtype
sub("gpytorch/kernels/newton_girard_additive_kernel.py", "e_n = torch.empty(*shape, device=kern_values.device)", "e_n = torch.empty(*shape, device=kern_values.device, dtype=kern_values.dtype)")
print("applied")
