# standalone reproductions of the C05 findings (run: PYTHONPATH=/repo python repro_c05.py)
import math, warnings, torch, gpytorch
warnings.filterwarnings("ignore")
K = gpytorch.kernels; D = torch.float64
torch.manual_seed(0)

print("1. PiecewisePolynomialKernel(q=2): coefficient of r^2 is (j + 4j + 3)/3 in the code, (j^2 + 4j + 3)/3 in the docstring / R&W (4.21)")
x1, x2 = torch.tensor([[0.0]], dtype=D), torch.tensor([[0.5]], dtype=D)
k = K.PiecewisePolynomialKernel(q=2).to(D); k.lengthscale = torch.tensor([[1.0]], dtype=D)
r, j = 0.5, 0 + 2 + 1
doc = (1 - r) ** (j + 2) * (1 + (j + 2) * r + (j * j + 4 * j + 3) / 3 * r * r)
print("   code", k(x1, x2).to_dense().item(), " documented", doc)

print("2. RBFKernelGradGrad raises for n1 != n2")
k = K.RBFKernelGradGrad().to(D)
try: k(torch.rand(3, 2, dtype=D), torch.rand(2, 2, dtype=D)).to_dense(); print("   ok")
except Exception as e: print("   raises", type(e).__name__, str(e)[:90])
print("   n1 == n2 works:", tuple(k(torch.rand(2, 2, dtype=D), torch.rand(2, 2, dtype=D)).to_dense().shape))

print("3. HammingIMQKernel with batch_shape: alpha/beta (b, 1) broadcast against (b, n1, n2)")
tok = torch.randint(0, 3, (2, 3, 2)); x = torch.nn.functional.one_hot(tok, 3).reshape(2, 3, 6).to(D)
tok2 = torch.randint(0, 3, (2, 2, 2)); y = torch.nn.functional.one_hot(tok2, 3).reshape(2, 2, 6).to(D)
k = K.HammingIMQKernel(vocab_size=3, batch_shape=torch.Size([2])).to(D)
k.alpha = torch.tensor([[0.5], [2.0]], dtype=D); k.beta = torch.tensor([[1.0], [1.5]], dtype=D)
try: print("   (2,3,d)x(2,2,d):", k(x, y).to_dense().shape)
except Exception as e: print("   (2,3,d)x(2,2,d) raises", type(e).__name__, str(e)[:80])
got = k(y, x).to_dense()          # n1 = 2 = batch size: no error, but alpha[b] is applied along n1 instead of the batch dimension
dh = (tok2.unsqueeze(-2) != tok.unsqueeze(-3)).sum(-1).to(D)
want = ((1 + k.alpha.unsqueeze(-1)) / (k.alpha.unsqueeze(-1) + dh)) ** k.beta.unsqueeze(-1)
print("   (2,2,d)x(2,3,d): max |code - formula| =", (got - want).abs().max().item())
k0 = K.HammingIMQKernel(vocab_size=3).to(D)
print("   non-batch kernel, batch inputs, diag=True: shape", tuple(k0(x, diag=True).shape), "expected (2, 3)")

print("4. ProductStructureKernel(...)(x, diag=True) raises")
k = K.ProductStructureKernel(K.RBFKernel(), num_dims=2).to(D)
try: k(torch.rand(4, 2, dtype=D), diag=True); print("   ok")
except Exception as e: print("   raises", type(e).__name__, str(e)[:100])

print("5. sum_interaction_terms(covars) with the documented default max_degree=None")
from gpytorch.utils.sum_interaction_terms import sum_interaction_terms
try: sum_interaction_terms(torch.rand(3, 4, 4, dtype=D)); print("   ok")
except Exception as e: print("   raises", type(e).__name__, str(e)[:60])

print("6. kernel(x, diag=True, last_dim_is_batch=True) when n == d: Kernel.__call__ takes the diagonal of the d x n result")
x = torch.rand(3, 3, dtype=D)
k = K.AdditiveStructureKernel(K.RBFKernel(), num_dims=3).to(D)
full = k(x).to_dense().diagonal()
try: print("   diag=True:", k(x, diag=True), " diagonal of the full matrix:", full)
except Exception as e: print("   raises", type(e).__name__, str(e)[:100], " (diagonal of the full matrix:", full.tolist(), ")")

print("7. (precision) NewtonGirardAdditiveKernel keeps its sums in the default dtype")
x1, x2 = torch.rand(3, 2, dtype=D), torch.rand(2, 2, dtype=D)
k = K.NewtonGirardAdditiveKernel(K.RBFKernel(), num_dims=2).to(D)
z = [torch.exp(-0.5 * (x1[:, None, t] - x2[None, :, t]) ** 2 / k.base_kernel.lengthscale.item() ** 2) for t in range(2)]
print("   float64 inputs, error vs formula:", (k(x1, x2).to_dense() - (0.5 * (z[0] + z[1]) + 0.5 * z[0] * z[1])).abs().max().item())
