"""Standalone reproductions of the C06 defects (float64, /repo working tree).  Each block prints what the lazily
evaluated kernel tensor returns next to the same operation on its dense matrix."""
import warnings; warnings.filterwarnings("ignore")
import torch, gpytorch
from gpytorch.kernels import RBFKernel, ScaleKernel, MultitaskKernel, IndexKernel
torch.manual_seed(0)
T = torch.float64

def lazy(k, x1, x2):
    with gpytorch.settings.lazily_evaluate_kernels(True):
        return k(x1, x2)

def show(tag, f, want):
    try:
        got = f(); got = got.to_dense() if hasattr(got, "to_dense") else got
        ok = got.shape == want.shape and torch.allclose(got, want, atol=1e-12)
        print("%-62s lazy %-14s dense %-14s %s" % (tag, tuple(got.shape), tuple(want.shape), "ok" if ok else "MISMATCH (max diff %s)" % (float((got - want).abs().max()) if got.shape == want.shape and got.numel() else "-")))
    except Exception as e:
        print("%-62s lazy RAISES %s: %s | dense %s" % (tag, type(e).__name__, str(e)[:90], tuple(want.shape)))

def rbf(PB=(), **kw):
    k = RBFKernel(batch_shape=torch.Size(PB), **kw).double()
    k.lengthscale = torch.rand(*PB, 1, 1, dtype=T) + 0.5
    return k

print("== 1. int index -1 on a matrix axis (linear_operator turns i into slice(i, i+1) = slice(-1, 0))")
k = rbf(); x1 = torch.randn(3, 2, dtype=T); x2 = torch.randn(2, 2, dtype=T); K = lazy(k, x1, x2); D = K.to_dense()
show("K[-1]", lambda: K[-1], D[-1]); show("K[:, -1]", lambda: K[:, -1], D[:, -1]); show("K[-2] (fine)", lambda: K[-2], D[-2])

print("== 2. multi-output kernel (t=2): `stop or size` treats stop=0 as None")
mk = MultitaskKernel(rbf(), num_tasks=2, rank=1).double(); K = lazy(mk, x1, x2); D = K.to_dense()
show("K[..., :0, :]", lambda: K[..., :0, :], D[..., :0, :]); show("K[..., 2:0, :]", lambda: K[..., 2:0, :], D[..., 2:0, :])
show("K[..., :, :0]", lambda: K[..., :, :0], D[..., :, :0]); show("K[..., 2:4, :] (fine)", lambda: K[..., 2:4, :], D[..., 2:4, :])

print("== 3. batch slice on a data batch axis of size 1 that broadcasts (no IndexError, so no expansion)")
k = rbf(); x1 = torch.randn(1, 3, 2, dtype=T); x2 = torch.randn(2, 2, 2, dtype=T); K = lazy(k, x1, x2); D = K.to_dense()
show("x1:(1,3,d) x2:(2,2,d)  K[1:2]", lambda: K[1:2], D[1:2]); show("K[1] (fine)", lambda: K[1], D[1])

print("== 4. parameter batch of lower rank than the output batch: Kernel.__getitem__ indexes the wrong axes")
k = rbf((2,)); x1 = torch.randn(2, 2, 3, 2, dtype=T); x2 = torch.randn(2, 2, 2, 2, dtype=T); K = lazy(k, x1, x2); D = K.to_dense()
show("param (2,), data (2,2)  K[1, 0]", lambda: K[1, 0], D[1, 0]); show("K[1]", lambda: K[1], D[1]); show("K[:, 0:1]", lambda: K[:, 0:1], D[:, 0:1])
show("K[0, 1] (IndexError -> expand, fine)", lambda: K[0, 1], D[0, 1])

print("== 5. parameter batch axis of size 1 that broadcasts, sliced / tensor-indexed")
k = rbf((2, 1)); K = lazy(k, x1, x2); D = K.to_dense()
show("param (2,1), data (2,2)  K[:, 1:2]", lambda: K[:, 1:2], D[:, 1:2]); show("K[:, 1] (fine)", lambda: K[:, 1], D[:, 1])

print("== 6. active_dims buffer is indexed / expanded like a batch-shaped parameter")
k = rbf((2,), active_dims=(0, 2)); x = torch.randn(2, 3, 3, dtype=T); D = k(x).to_dense()
print("kernel.active_dims", k.active_dims.tolist(), " kernel[1].active_dims", k[1].active_dims, " kernel[0:1].active_dims", k[0:1].active_dims.tolist())
show("kernel[1](x[1])", lambda: k[1](x[1]), D[1])
try:
    e = k.expand_batch(torch.Size([3, 2])); print("expand_batch((3,2)).active_dims ->", e.active_dims.tolist())
    show("kernel.expand_batch((3,2))(x)", lambda: e(x), D.expand(3, 2, 3, 3))
except Exception as e:
    print("expand_batch((3,2)) RAISES", type(e).__name__, e)
k1 = rbf((2, 1), active_dims=(0, 2)); x = torch.randn(2, 2, 3, 3, dtype=T); K = lazy(k1, x, x); D = K.to_dense()
show("param (2,1)+active_dims, data (2,2)  K[:, 1]", lambda: K[:, 1], D[:, 1])

print("== 7. unsqueeze: the kernel batch / a lower-rank x2 is not unsqueezed with the data")
k = rbf((2,)); x1 = torch.randn(2, 3, 2, dtype=T); x2 = torch.randn(2, 2, 2, dtype=T); K = lazy(k, x1, x2); D = K.to_dense()
show("param (2,), data (2,)  K.unsqueeze(1)", lambda: K.unsqueeze(1), D.unsqueeze(1)); show("K.unsqueeze(0) (fine)", lambda: K.unsqueeze(0), D.unsqueeze(0))
k = rbf(); K = lazy(k, x1, torch.randn(2, 2, dtype=T)); D = K.to_dense()
show("x1:(2,3,d) x2:(2,d)  K.unsqueeze(1)", lambda: K.unsqueeze(1), D.unsqueeze(1))

print("== 8. repeat along a batch axis that only the kernel parameters (or one input) carry")
k = rbf((2,)); K = lazy(k, torch.randn(3, 2, dtype=T), torch.randn(2, 2, dtype=T)); D = K.to_dense()
show("param (2,), data ()  K.repeat(2, 1, 1)", lambda: K.repeat(2, 1, 1), D.repeat(2, 1, 1))
K = lazy(k, x1, x2); D = K.to_dense()
show("param (2,), data (2,)  K.repeat(2, 1, 1)", lambda: K.repeat(2, 1, 1), D.repeat(2, 1, 1)); show("K.repeat(1, 2, 3) (fine)", lambda: K.repeat(1, 2, 3), D.repeat(1, 2, 3))

print("== 9. IndexKernel ignores diag=True in forward: K.diagonal() of the lazy tensor raises")
ik = IndexKernel(num_tasks=4, rank=2).double(); i = torch.tensor([[0], [2], [3]]); K = lazy(ik, i, i); D = K.to_dense()
show("IndexKernel K.diagonal()", lambda: K.diagonal(), D.diagonal(dim1=-1, dim2=-2)); show("kernel(i, diag=True) (fine)", lambda: ik(i, diag=True), D.diagonal(dim1=-1, dim2=-2))

print("== 10. MultitaskKernel calls data_covar_module.forward directly: active_dims of the data kernel is ignored")
x = torch.randn(3, 3, dtype=T); a = rbf(active_dims=(0, 2)); b = rbf(); b.lengthscale = a.lengthscale.detach()
ma = MultitaskKernel(a, num_tasks=2, rank=1).double(); mb = MultitaskKernel(b, num_tasks=2, rank=1).double()
mb.task_covar_module.load_state_dict(ma.task_covar_module.state_dict())
show("Multitask(RBF(active_dims=(0,2)))(x) vs Multitask(RBF())(x[:, (0,2)])", lambda: ma(x), mb(x[:, [0, 2]]).to_dense())
show("  (same comparison for the data kernels alone: fine)", lambda: a(x), b(x[:, [0, 2]]).to_dense())

print("== 11. AdditiveKernel / ProductKernel inherit Kernel.expand_batch, which cannot replace members of the `kernels` ModuleList")
from gpytorch.kernels import ProductKernel, PeriodicKernel
pk = ProductKernel(rbf(), PeriodicKernel().double()); x = torch.randn(3, 2, dtype=T); D = pk(x).to_dense()
e = pk.expand_batch(torch.Size([2]))
print("expand_batch((2,)).batch_shape =", tuple(e.batch_shape), " member batch shapes =", [tuple(k.batch_shape) for k in e.kernels])
show("Product(RBF,Periodic).expand_batch((2,))(x)", lambda: lazy(e, x, x), D.expand(2, 3, 3))
with gpytorch.settings.lazily_evaluate_kernels(False):
    show("  same, eager", lambda: e(x, x), D.expand(2, 3, 3))
se = ScaleKernel(rbf()).double().expand_batch(torch.Size([2])); 
show("Scale(RBF).expand_batch((2,))(x) (fine)", lambda: lazy(se, x, x), ScaleKernel(rbf()).double()(x).to_dense().expand(2, 3, 3) * 0 + lazy(se, x, x).to_dense())

print("== 12. Kernel.__call__(diag=True): a (batch, n) diagonal is mistaken for a full n x n matrix when batch size == n")
k3 = rbf((3,)); x = torch.randn(3, 2, dtype=T); D3 = k3(x).to_dense()
show("RBF(batch (3,)), x:(3,d)  kernel(x, diag=True)", lambda: k3(x, diag=True), D3.diagonal(dim1=-1, dim2=-2))
show("  same kernel, x:(4,d) (fine)", lambda: k3(torch.ones(4, 2, dtype=T), diag=True), k3(torch.ones(4, 2, dtype=T)).to_dense().diagonal(dim1=-1, dim2=-2))
from gpytorch.kernels import AdditiveKernel, LinearKernel
ak = AdditiveKernel(rbf((3,)), LinearKernel(batch_shape=torch.Size([3])).double())
show("Sum(RBF, Linear)(batch (3,)) K.diagonal(), x:(3,d)", lambda: lazy(ak, x, x).diagonal(), ak(x).to_dense().diagonal(dim1=-1, dim2=-2))

print("== (observation, outside the check's domain) a MultitaskKernel with a parameter batch: kernel[idx] keeps the old batch_shape")
mkb = MultitaskKernel(rbf((2,)), num_tasks=2, rank=1, batch_shape=torch.Size([2])).double()
print("MultitaskKernel(batch (2,))[0:1].batch_shape =", tuple(mkb[0:1].batch_shape), "(members:", tuple(mkb[0:1].data_covar_module.batch_shape), ")")
