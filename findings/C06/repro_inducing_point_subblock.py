"""C06 finding (signature C06/zoo/lazy-cols/InducingPoint(RBF)/special-rows and siblings lazy-rows / lazy-batch-*):
an InducingPointKernel in eval mode is not a function of its input points.  forward() adds the SGPR diagonal correction
(k(x, x) - q(x, x) on the diagonal) exactly when torch.equal(x1, x2).  A lazily evaluated cross-covariance K = kernel(x1, x2)
that is sliced to a block whose two inputs coincide BY VALUE (x2 = cat(x_new, x1): K[..., :, n_new:]) evaluates
kernel(x1, x2[n_new:]) = kernel(x1, x1) WITH the correction, while the same block of the dense matrix has none:

    kernel(x1, x2)[..., :, 1:].to_dense()  !=  kernel(x1, x2).to_dense()[..., :, 1:]

Exit code 1 while the defect is present, 0 otherwise."""
import sys
import warnings

import torch

import gpytorch
from gpytorch.kernels import InducingPointKernel, RBFKernel

warnings.simplefilter("ignore")
torch.manual_seed(0)
dt = torch.float64
k = InducingPointKernel(RBFKernel(), inducing_points=torch.linspace(-1, 1, 12, dtype=dt).reshape(4, 3).sin(), likelihood=gpytorch.likelihoods.GaussianLikelihood()).double()
k.eval()
x1 = torch.rand(2, 3, dtype=dt)
x2 = torch.cat([torch.rand(1, 3, dtype=dt), x1])  # the points of x1 are the last rows of x2
with gpytorch.settings.lazily_evaluate_kernels(False):
    dense = k(x1, x2).to_dense()
with gpytorch.settings.lazily_evaluate_kernels(True):
    lazy_block = k(x1, x2)[..., :, 1:].to_dense()
err = (lazy_block - dense[..., :, 1:]).abs().max().item()
print("kernel(x1, x2)[..., :, 1:] lazily:\n", lazy_block, "\nthe same block of the dense matrix:\n", dense[..., :, 1:], "\nmax |difference| = %.3e" % err)
# the same kernel value depends on the call it is requested in: k(a, a) as a diagonal entry of kernel(x1, x1) and as an entry of kernel(x1, x2)
with gpytorch.settings.lazily_evaluate_kernels(False):
    print("k(a, a) inside kernel(x1, x1): %.6f, inside kernel(x1, cat(x_new, x1)): %.6f" % (k(x1, x1).to_dense()[0, 0].item(), dense[0, 1].item()))

# user-visible consequence: the predictive mean of an SGPR model AT ITS TRAINING INPUTS depends on lazily_evaluate_kernels (the lazy
# test-train block kernel(x_test, x_train) has equal inputs and gets the correction, the same block of the eager joint matrix has
# none), and jumps when the inputs are moved by 1e-9
class SGPR(gpytorch.models.ExactGP):
    def __init__(self, X, y, lik):
        super().__init__(X, y, lik)
        self.mean_module = gpytorch.means.ZeroMean()
        self.covar_module = InducingPointKernel(gpytorch.kernels.ScaleKernel(RBFKernel()), inducing_points=X[:4].clone(), likelihood=lik)

    def forward(self, x):
        return gpytorch.distributions.MultivariateNormal(self.mean_module(x), self.covar_module(x))


X = torch.rand(12, 2, dtype=dt)
y = torch.sin(3 * X[:, 0]) + 0.1 * torch.randn(12, dtype=dt)
lik = gpytorch.likelihoods.GaussianLikelihood().double()
m = SGPR(X, y, lik).double()
m.eval()
means = {}
for lazy in (True, False):
    for name, xt in (("X", X.clone()), ("X+1e-9", X.clone() + 1e-9)):
        with torch.no_grad(), gpytorch.settings.lazily_evaluate_kernels(lazy):
            m.prediction_strategy = None
            means[lazy, name] = m(xt).mean.clone()
print("SGPR predictive mean at the training inputs, lazy vs eager kernels: max |difference| = %.3e" % (means[True, "X"] - means[False, "X"]).abs().max().item())
print("SGPR predictive mean at X vs X + 1e-9 (lazy): %.3e   (eager): %.3e" % ((means[True, "X"] - means[True, "X+1e-9"]).abs().max().item(),
                                                                              (means[False, "X"] - means[False, "X+1e-9"]).abs().max().item()))
sys.exit(1 if err > 1e-8 else 0)
