"""C03/ext/nnvs/knn-structures-not-rebuilt-by-load_state_dict   (+ aliasing of the caller's tensor)

NNVariationalStrategy builds its k-nearest-neighbour structures (`nn_util` index used by every evaluation-mode
prediction, `nn_xinduce_idx` used by the KL term) once, in __init__, from the inducing locations it is given.
`inducing_points` is a registered buffer, so `load_state_dict` replaces the locations - but the structures are
not rebuilt: predictions condition every test point on the variational parameters of the points that WERE its
neighbours under the old locations.  A freshly constructed model holding the same state predicts differently.

Second observation (same constructor): `self.inducing_points = inducing_points` re-registers the CALLER's tensor
as the buffer (the base class had registered a clone), so load_state_dict / .to() write through into the user's
training inputs.

Run:  PYTHONPATH=/repo /venv/bin/python /verif/findings/C03ext/repro_nnvs_stale_knn.py
Exit code 1 = defect present."""
import sys
import warnings

import torch

import gpytorch

warnings.filterwarnings("ignore")
D = torch.float64


class VNNGP(gpytorch.models.ApproximateGP):
    def __init__(self, z, k=3):
        vd = gpytorch.variational.MeanFieldVariationalDistribution(z.size(-2))
        vs = gpytorch.variational.NNVariationalStrategy(self, z, vd, k=k, training_batch_size=4)
        super().__init__(vs)
        self.mean_module = gpytorch.means.ConstantMean()
        self.covar_module = gpytorch.kernels.ScaleKernel(gpytorch.kernels.RBFKernel())

    def forward(self, x):
        return gpytorch.distributions.MultivariateNormal(self.mean_module(x), self.covar_module(x))


g = torch.Generator().manual_seed(0)
z_a = torch.rand(10, 1, generator=g, dtype=D) * 2 - 1          # locations the live model is constructed with
z_b = torch.rand(10, 1, generator=g, dtype=D) * 2 - 1          # locations of the checkpoint
xs = torch.tensor([[-0.6], [-0.3], [0.2]], dtype=D)

# a "trained" checkpoint: model over z_b with some non-trivial variational parameters
src = VNNGP(z_b.clone()).to(D)
with torch.no_grad():
    src.variational_strategy._variational_distribution.variational_mean.copy_(torch.sin(3 * z_b.squeeze(-1)))
    src.variational_strategy._variational_distribution._variational_stddev.fill_(0.1)
    src.variational_strategy.variational_params_initialized.fill_(1)
    src.covar_module.base_kernel.lengthscale = 0.7
state = {k: v.clone() for k, v in src.state_dict().items()}
src.eval()
want = src(xs).mean.detach()

live = VNNGP(z_a.clone()).to(D)
live.load_state_dict(state)
live.eval()
got = live(xs).mean.detach()

fresh = VNNGP(state["variational_strategy.inducing_points"].clone()).to(D)   # freshly constructed at the current locations
fresh.load_state_dict(state)
fresh.eval()
ref = fresh(xs).mean.detach()

print("checkpointed model            :", want.numpy())
print("fresh model, same state       :", ref.numpy())
print("live model after load         :", got.numpy())
print("neighbours used by the live model :", live.variational_strategy.nn_util.find_nn_idx(xs.float()).tolist())
print("neighbours under the loaded points:", fresh.variational_strategy.nn_util.find_nn_idx(xs.float()).tolist())
bad = float((got - ref).abs().max()) > 1e-8

# aliasing: the caller's tensor is the buffer
mine = z_a.clone()
keep = mine.clone()
m2 = VNNGP(mine).to(D)
m2.load_state_dict(state)
aliased = not torch.equal(mine, keep)
print("caller's inducing-point tensor overwritten by load_state_dict:", aliased)

if bad:
    print("DEFECT: k-NN structures are those of the inducing locations the object was constructed with")
sys.exit(1 if (bad or aliased) else 0)
