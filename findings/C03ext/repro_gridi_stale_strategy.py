"""C03/ext/gridi/strategy-kept-across-update_grid

GridInterpolationKernel without `grid_bounds` (the grid is fitted to the inputs it sees) moves its grid
(`update_grid`) whenever an evaluation sees inputs outside the current bounds.  `update_grid` clears the kernel's
own `_cached_kernel_mat`, but the model's prediction strategy (InterpolatedPredictionStrategy: mean_cache /
covar_cache live in GRID space) is kept.  In evaluation mode the strategy is created from the grid fitted to the
training inputs; evaluating the joint train+test covariance in the SAME call moves the grid when a test point
lies outside the training range; the test-side interpolation weights (new grid) are then combined with caches
computed on the old grid.  The result is silently wrong and stays wrong until something clears the strategy.

Run:  PYTHONPATH=/repo /venv/bin/python /verif/findings/C03ext/repro_gridi_stale_strategy.py
Exit code 1 = defect present."""
import sys
import warnings

import torch

import gpytorch

warnings.filterwarnings("ignore")
D = torch.float64


class KissGP(gpytorch.models.ExactGP):
    def __init__(self, x, y, lik, grid_bounds=None):
        super().__init__(x, y, lik)
        self.mean_module = gpytorch.means.ConstantMean()
        self.covar_module = gpytorch.kernels.ScaleKernel(
            gpytorch.kernels.GridInterpolationKernel(gpytorch.kernels.RBFKernel(), grid_size=16, num_dims=1, grid_bounds=grid_bounds))

    def forward(self, x):
        return gpytorch.distributions.MultivariateNormal(self.mean_module(x), self.covar_module(x))


class Exact(gpytorch.models.ExactGP):
    def __init__(self, x, y, lik):
        super().__init__(x, y, lik)
        self.mean_module = gpytorch.means.ConstantMean()
        self.covar_module = gpytorch.kernels.ScaleKernel(gpytorch.kernels.RBFKernel())

    def forward(self, x):
        return gpytorch.distributions.MultivariateNormal(self.mean_module(x), self.covar_module(x))


def build(cls, x, y, **kw):
    lik = gpytorch.likelihoods.GaussianLikelihood()
    m = cls(x, y, lik, **kw).to(D)
    with torch.no_grad():
        lik.noise = 0.2
        m.covar_module.outputscale = 1.3
        (m.covar_module.base_kernel.base_kernel if cls is KissGP else m.covar_module.base_kernel).lengthscale = 0.7
    return m.eval()


g = torch.Generator().manual_seed(0)
x = torch.rand(6, 1, generator=g, dtype=D) * 1.6 - 0.8
y = torch.sin(3 * x.sum(-1)) + 0.1 * torch.randn(6, generator=g, dtype=D)
xs = torch.tensor([[-1.3], [0.1], [1.25]], dtype=D)      # two test points outside the range of the training inputs

live = build(KissGP, x, y)
first = live(xs).mean.detach()
second = live(xs).mean.detach()                            # same object, nothing changed in between
bounds = live.covar_module.base_kernel.grid_bounds
live.train()
live.eval()                                                # clears the prediction strategy; parameters, data, grid unchanged
after_mode_switch = live(xs).mean.detach()
assert live.covar_module.base_kernel.grid_bounds == bounds
reference = build(Exact, x, y)(xs).mean.detach()           # the exact GP that KISS-GP approximates
fixed_grid = build(KissGP, x, y, grid_bounds=[(-2.0, 2.0)])(xs).mean.detach()

print("dynamic grid, first call            :", first.numpy())
print("dynamic grid, second call           :", second.numpy())
print("same model after train(); eval()    :", after_mode_switch.numpy())
print("KISS-GP with fixed grid_bounds      :", fixed_grid.numpy())
print("exact GP (what is approximated)     :", reference.numpy())
err_stale = float((first - reference).abs().max())
err_fresh = float((after_mode_switch - reference).abs().max())
print("max error vs exact: with the kept strategy %.3e, after the strategy was rebuilt %.3e" % (err_stale, err_fresh))
if float((first - after_mode_switch).abs().max()) > 1e-6:
    print("DEFECT: the prediction depends on whether the prediction strategy predates the last update_grid")
    sys.exit(1)
print("no defect")
