"""C04 (and the 'depends only on its own parameters' clause of C03): a fantasy model followed later changes of the SOURCE model's
hyperparameters.  History: predict(source); f = source.get_fantasy_model(..); source.train(); change source's parameters;
source.eval(); f(x*).  Before /repo 9823ce1: the mean of f at its first evaluation and its exact predictive covariance at every
evaluation (fast_pred_var off) changed (0.41 / 0.16 here) although f holds deep copies of all parameters: its strategy kept the
lazily evaluated joint prior kernel of the source.  After the fix both differences are 0.
Found by the Refit(k) action of the family-tree machine of spec/Fantasy.tla (HyperOwn) replayed by checks/c04.py.
usage: /venv/bin/python fantasy_follows_source.py   (prints the two differences per order; non-zero = defect)"""
import torch, gpytorch, sys
torch.set_default_dtype(torch.float64)
class M(gpytorch.models.ExactGP):
    def __init__(s,x,y,l):
        super().__init__(x,y,l); s.mean_module=gpytorch.means.ConstantMean(); s.covar_module=gpytorch.kernels.ScaleKernel(gpytorch.kernels.RBFKernel())
    def forward(s,x): return gpytorch.distributions.MultivariateNormal(s.mean_module(x), s.covar_module(x))
def go(refit, order):
    torch.manual_seed(0)
    x=torch.rand(5,1); y=torch.sin(3*x[:,0]); xs=torch.rand(3,1)
    l=gpytorch.likelihoods.GaussianLikelihood(); m=M(x,y,l); m.eval()
    m(xs)
    xf=torch.rand(2,1); yf=torch.randn(2)
    f=m.get_fantasy_model(xf,yf)
    if order=="eval-first": f(xs)
    if refit:
        m.train()
        with torch.no_grad():
            for p in m.parameters(): p.add_(0.5)
        m.eval()
    return f(xs).mean.detach(), f(xs).covariance_matrix.detach()
for order in ("lazy","eval-first"):
    a=go(False,order); b=go(True,order)
    print(order, (a[0]-b[0]).abs().max().item(), (a[1]-b[1]).abs().max().item())
