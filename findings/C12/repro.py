import torch, warnings
warnings.filterwarnings("ignore")
from gpytorch.distributions import MultivariateNormal
from gpytorch.likelihoods import FixedNoiseGaussianLikelihood, GaussianLikelihood, LikelihoodList, DirichletClassificationLikelihood
D = torch.float64
d = MultivariateNormal(torch.zeros(3, dtype=D), torch.eye(3, dtype=D))

# (3) fixed + learned noise, noise given at call time: diag(v) is added twice, the learned sigma2 never
lik = FixedNoiseGaussianLikelihood(noise=torch.tensor([10., 20., 30.], dtype=D), learn_additional_noise=True).double()
lik.second_noise = 0.5
v = torch.tensor([1000., 2000., 3000.], dtype=D)
print("stored noise :", (lik(d).covariance_matrix - d.covariance_matrix).diagonal().tolist(), " (expected [10.5, 20.5, 30.5])")
print("noise=v      :", (lik(d, noise=v).covariance_matrix - d.covariance_matrix).diagonal().tolist(), " (expected [1000.5, 2000.5, 3000.5])")

# (4) LikelihoodList with per-member noise: the kwargs dict is passed positionally
f1 = FixedNoiseGaussianLikelihood(noise=torch.tensor([10., 20., 30.], dtype=D)).double()
f2 = FixedNoiseGaussianLikelihood(noise=torch.tensor([11., 21., 31.], dtype=D)).double()
try:
    LikelihoodList(f1, f2)(d, d, noise=[v, 2 * v])
except Exception as e:
    print("LikelihoodList(F, F)(d, d, noise=[v, 2v]) ->", type(e).__name__, e)
g1, g2 = GaussianLikelihood().double(), GaussianLikelihood().double()
out = LikelihoodList(g1, g2)(d, d, noise=[v, 2 * v])
print("LikelihoodList(G, G)(d, d, noise=[v, 2v])[0] adds", (out[0].covariance_matrix - d.covariance_matrix).diagonal().tolist(),
      "while G(d, noise=v) adds", (g1(d, noise=v).covariance_matrix - d.covariance_matrix).diagonal().tolist())

# (new) Dirichlet: targets= at call time are transformed with alpha_epsilon = 0.01, not the likelihood's
tg = torch.tensor([2, 0, 1])
dl = DirichletClassificationLikelihood(tg, alpha_epsilon=0.1, dtype=D).double()
d3 = MultivariateNormal(torch.zeros(3, 3, dtype=D), torch.eye(3, dtype=D).expand(3, 3, 3))
print("Dirichlet(alpha_epsilon=0.1): stored targets   :", (dl(d3).covariance_matrix - d3.covariance_matrix).diagonal(dim1=-1, dim2=-2)[0].tolist())
print("Dirichlet(alpha_epsilon=0.1): targets=<the same>:", (dl(d3, targets=tg).covariance_matrix - d3.covariance_matrix).diagonal(dim1=-1, dim2=-2)[0].tolist())
