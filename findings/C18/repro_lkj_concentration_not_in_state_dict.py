"""C18: the shape parameter of the LKJ priors is not carried by the state_dict.

Every other prior registers its parameters as buffers (priors/utils.py:_bufferize_attributes: "Adds the parameters of the prior as a torch buffer to
enable saving/loading to/from state_dicts"); LKJCholeskyFactorPrior / LKJPrior / LKJCovariancePrior keep `concentration` (= eta) as a plain tensor
attribute.  A checkpoint of a model with an LKJ prior therefore does not contain eta; loaded (strictly, silently) into a model of the same architecture
built with another eta, the training objective (marginal log likelihood + log prior) differs, although state_dict() of both models is identical.

Run: PYTHONPATH=/repo /venv/bin/python /verif/findings/C18/repro_lkj_concentration_not_in_state_dict.py   (exit 1 = defect present)"""
import sys
import warnings

warnings.filterwarnings("ignore")

import torch

import gpytorch
from gpytorch.priors import LKJCovariancePrior, NormalPrior, SmoothedBoxPrior

D = torch.float64


class Hadamard(gpytorch.models.ExactGP):
    def __init__(self, x, i, y, lik, eta):
        super().__init__((x, i), y, lik)
        self.mean_module = gpytorch.means.ConstantMean(constant_prior=NormalPrior(0.0, eta))       # a buffered prior parameter, for contrast
        self.covar_module = gpytorch.kernels.RBFKernel()
        self.task_covar_module = gpytorch.kernels.IndexKernel(num_tasks=2, rank=1, prior=LKJCovariancePrior(2, eta, SmoothedBoxPrior(0.05, 2.0)))

    def forward(self, x, i):
        return gpytorch.distributions.MultivariateNormal(self.mean_module(x), self.covar_module(x).mul(self.task_covar_module(i)))


def build(eta):
    torch.manual_seed(0)
    x = torch.linspace(-1, 1, 7, dtype=D).unsqueeze(-1)
    i = (torch.arange(7) % 2).unsqueeze(-1)
    y = torch.sin(3 * x.squeeze(-1))
    return Hadamard(x, i, y, gpytorch.likelihoods.GaussianLikelihood(), eta).to(D), (x, i), y


def objective(model, xi, y):
    model.train()
    return gpytorch.mlls.ExactMarginalLogLikelihood(model.likelihood, model)(model(*xi), y).item()


orig, xi, y = build(1.5)
fresh, _, _ = build(3.0)                      # same architecture, other prior parameters (as for every other prior of the check's zoo)
sd = orig.state_dict()
print("keys with 'prior':", [k for k in sd if "prior" in k.lower()])
fresh.load_state_dict(sd)                     # strict, succeeds
same_sd = all(torch.equal(a, b) for a, b in zip(orig.state_dict().values(), fresh.state_dict().values()))
o1, o2 = objective(orig, xi, y), objective(fresh, xi, y)
print("state_dicts identical after load:", same_sd)
print("NormalPrior scale carried:", float(fresh.mean_module.mean_prior.scale), "(original 1.5)")
print("LKJ eta of the loaded model:", float(fresh.task_covar_module.IndexKernelPrior.correlation_prior.concentration), "(original 1.5)")
print("objective original %.12f loaded %.12f" % (o1, o2))
sys.exit(0 if o1 == o2 else 1)
