"""C17 finding (signatures C17/prior-history/{LogNormal,HalfNormal,HalfCauchy}Prior/density/ModLoad/after-dtype-conversion):
the priors that are torch TransformedDistributions keep their hyper-parameters twice - the registered buffers
`_transformed_<attr>` (what state_dict() saves and restores) and `base_dist.<attr>` (what log_prob reads).  `_bufferize_attributes`
registers the very tensor of base_dist as the buffer, so torch's in-place `_load_from_state_dict` reaches both.  Any conversion that
really changes dtype or device (`model.double()` on a default float32 model, `.to(device)`, `.float()`) goes through
`Module._apply`, which REPLACES the buffers: from then on the two copies are different tensors.  A later `model.load_state_dict`
(the prior is a child: `Prior.load_state_dict`, which re-points base_dist, is not called for children) updates only the buffer:
state_dict() reports the loaded hyper-parameters, `prior.loc` / `prior.scale` and log_prob keep the old ones - the marginal log
likelihood silently adds the density of the wrong prior.

Here: the usual order `model = Model(); model.double(); model.load_state_dict(saved)` with the torch default dtype (float32).

Run: /venv/bin/python findings/C17/transformed_prior_stale_after_dtype_conversion.py   (exit 1 = behaviour present)"""
import math
import sys

import torch

import gpytorch
from gpytorch.kernels import RBFKernel, ScaleKernel
from gpytorch.likelihoods import GaussianLikelihood
from gpytorch.priors import GammaPrior, HalfCauchyPrior, HalfNormalPrior, LogNormalPrior


class Holder(gpytorch.Module):
    def __init__(self, ln_loc, ln_scale, hc_scale, hn_scale, g_conc):
        super().__init__()
        self.covar_module = ScaleKernel(RBFKernel(lengthscale_prior=LogNormalPrior(ln_loc, ln_scale)), outputscale_prior=HalfCauchyPrior(hc_scale))
        self.likelihood = GaussianLikelihood(noise_prior=HalfNormalPrior(hn_scale))
        self.other = RBFKernel(lengthscale_prior=GammaPrior(g_conc, 2.0))       # a prior whose buffers are its only copy: unaffected


saved = Holder(0.25, 0.75, 1.5, 0.5, 3.0).double()
state = saved.state_dict()

dst = Holder(2.0, 2.0, 8.0, 4.0, 1.0)     # float32, other hyper-parameters
dst = dst.double()                        # Module._apply replaces the _transformed_* buffers; base_dist keeps the old tensors
dst.load_state_dict(state)

x = torch.tensor(0.75, dtype=torch.float64)
closed = {
    "covar_module.base_kernel.lengthscale_prior": -math.log(0.75 * 0.75 * math.sqrt(2 * math.pi)) - (math.log(0.75) - 0.25) ** 2 / (2 * 0.75 ** 2),
    "covar_module.outputscale_prior": math.log(2 / (math.pi * 1.5 * (1 + (0.75 / 1.5) ** 2))),
    "likelihood.noise_covar.noise_prior": math.log(2 / (0.5 * math.sqrt(2 * math.pi))) - 0.75 ** 2 / (2 * 0.5 ** 2),
    "other.lengthscale_prior": 3.0 * math.log(2.0) - math.lgamma(3.0) + 2.0 * math.log(0.75) - 2.0 * 0.75,
}
bad = 0
for name, _, prior, _, _ in dst.named_priors():
    got = float(prior.log_prob(x))
    reported = {k: round(float(v), 6) for k, v in prior.state_dict().items()}
    attrs = {a: round(float(getattr(prior, a)), 6) for a in ("loc", "scale", "concentration", "rate") if hasattr(prior, a)}
    ok = abs(got - closed[name]) <= 1e-6
    bad += not ok
    print("%-45s state_dict %s attributes %s\n    log_prob(0.75) = %.6f, documented density at the loaded hyper-parameters %.6f  %s" % (
        name, reported, attrs, got, closed[name], "ok" if ok else "STALE"))
sys.exit(1 if bad else 0)
