"""Observation next to C17 (recorded as outside the claim by checks/c17.py, see ck.assumptions):
`Positive.transform` / `inverse_transform` never read the `lower_bound` buffer (the class assumes it is 0), while the buffer
is restored by load_state_dict and can be assigned like that of any other constraint.  A model whose lengthscale was trained
under GreaterThan(0.5) and is loaded into the same kernel built with the default Positive() reports lower_bound = 0.5 but reads
a lengthscale BELOW it (and not the saved one).  GreaterThan(0.) built explicitly behaves correctly.

Run: /venv/bin/python findings/C17/positive_ignores_lower_bound.py   (exit 1 = behaviour present)"""
import sys

import torch

import gpytorch
from gpytorch.constraints import GreaterThan

torch.set_default_dtype(torch.float64)
src = gpytorch.kernels.RBFKernel(lengthscale_constraint=GreaterThan(0.5))
src.lengthscale = 0.75
bad = 0
for name, dst in (("Positive()", gpytorch.kernels.RBFKernel()), ("GreaterThan(0.)", gpytorch.kernels.RBFKernel(lengthscale_constraint=GreaterThan(0.0)))):
    dst.load_state_dict(src.state_dict())
    c = dst.raw_lengthscale_constraint
    v = float(dst.lengthscale)
    print("%-16s lower_bound reports %.3f, lengthscale reads %.6f (saved 0.75), transform(-50.) = %.6f" % (name, float(c.lower_bound), v, float(c.transform(torch.tensor(-50.0)))))
    if v < float(c.lower_bound) or abs(v - 0.75) > 1e-12:
        bad += 1
sys.exit(1 if bad else 0)
