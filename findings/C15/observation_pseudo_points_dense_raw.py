"""Observation made while strengthening C15 (NOT a C15 violation: the variational objectives are unaffected).

CholeskyVariationalDistribution.forward() masks the raw factor (q(u) is defined by the lower triangle of
chol_variational_covar), but VariationalStrategy.pseudo_points / UnwhitenedVariationalStrategy.pseudo_points wrap the RAW
parameter in TriangularLinearOperator without the mask and then use matmul / to_dense, which read the whole tensor.  With a
raw factor in generic position (a checkpoint / assignment with entries above the diagonal) the pseudo points - and hence
get_fantasy_model / amortized_exact_gp of the SVGP - belong to a different q(u) than the one the model predicts with.
After ordinary training the entries above the diagonal stay zero (their gradient is masked), so this needs a dense load.

Suggested fix (both strategies):
-        var_cov_root = TriangularLinearOperator(self._variational_distribution.chol_variational_covar)
-        var_cov = CholLinearOperator(var_cov_root)
+        var_cov = self.variational_distribution.lazy_covariance_matrix

Run: PYTHONPATH=/repo /venv/bin/python findings/C15/observation_pseudo_points_dense_raw.py   (exit 1 = observed)
"""
import sys

import torch

import gpytorch

torch.set_default_dtype(torch.float64)
M = 4
Z = torch.linspace(-1, 1, M).unsqueeze(-1)


class SVGP(gpytorch.models.ApproximateGP):
    def __init__(self):
        vd = gpytorch.variational.CholeskyVariationalDistribution(M)
        super().__init__(gpytorch.variational.VariationalStrategy(self, Z, vd, learn_inducing_locations=False))
        self.mean_module = gpytorch.means.ZeroMean()
        self.covar_module = gpytorch.kernels.RBFKernel()

    def forward(self, x):
        return gpytorch.distributions.MultivariateNormal(self.mean_module(x), self.covar_module(x))


def pseudo(junk):
    m = SVGP()
    m.train()
    m(Z + 0.1)
    C = (0.3 * torch.randn(M, M, generator=torch.Generator().manual_seed(1))).tril() + 0.7 * torch.eye(M)
    with torch.no_grad():
        m.variational_strategy._variational_distribution.chol_variational_covar.copy_(C + junk)
    m.eval()
    cov, _ = m.variational_strategy.pseudo_points
    return cov, m.variational_strategy.variational_distribution.covariance_matrix


a, qa = pseudo(torch.zeros(M, M))
b, qb = pseudo(torch.ones(M, M).triu(1))
dq, dp = float((qa - qb).abs().max()), float((a - b).abs().max())
print("q(u) covariance reported by the model differs by %.3g; pseudo-point covariance differs by %.3g" % (dq, dp))
sys.exit(1 if dq < 1e-12 and dp > 1e-6 else 0)
