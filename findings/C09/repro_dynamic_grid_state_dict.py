"""C09 adjacent observation (NOT a cell of the check; persistence is C18's): a GridInterpolationKernel without grid_bounds keeps the Python attribute
grid_bounds outside its state_dict.  After load_state_dict the buffers grid_i / has_initialized_grid describe the donor's grid but
_tight_grid_bounds is still computed from the receiver's stale grid_bounds, so data inside the stale bounds and outside the loaded grid is
sent to Interpolation.interpolate with a grid that does not cover it.

Run: /venv/bin/python findings/C09/repro_dynamic_grid_state_dict.py"""
import sys

sys.path.insert(0, "/repo")
import torch  # noqa: E402
import gpytorch  # noqa: E402

D = torch.float64


def mk():
    b = gpytorch.kernels.RBFKernel().to(D)
    return gpytorch.kernels.GridInterpolationKernel(b, grid_size=8, num_dims=1).to(D)


with torch.no_grad():
    donor = mk()
    donor.eval()
    x_train = torch.linspace(5, 9, 6, dtype=D).unsqueeze(-1)
    donor(x_train, x_train).to_dense()                       # the donor lays its grid over [5, 9]
    k = mk()
    k.eval()
    k.load_state_dict(donor.state_dict())                   # grid loaded, grid_bounds of k still the constructor's (-1, 1)
    print("loaded grid [%.2f, %.2f], grid_bounds attribute %s" % (float(k.grid[0][0]), float(k.grid[0][-1]), k.grid_bounds))
    x = torch.linspace(-0.2, 0.2, 4, dtype=D).unsqueeze(-1)  # inside the stale tight bounds, outside the loaded grid
    try:
        k(x, x).to_dense()
        print("evaluated")
        sys.exit(0)
    except RuntimeError as e:
        print("RuntimeError:", str(e)[:120])
        sys.exit(1)
