import torch, gpytorch, itertools
from gpytorch.utils.grid import create_data_from_grid
from gpytorch.utils.interpolation import Interpolation
D=torch.float64
def ski_dense(base, grid, x1, x2):
    # enumeration-free: tensor-product weights
    def W(x):
        Ws=[]
        for d,g in enumerate(grid):
            idx,val=Interpolation().interpolate([g], x[:,d:d+1])
            w=torch.zeros(x.shape[0],len(g),dtype=D); w.scatter_add_(1,idx,val); Ws.append(w)
        return Ws
    pts=torch.stack([t.reshape(-1) for t in torch.meshgrid(*grid,indexing="ij")],-1)  # C order: dim0 slowest
    K=base(pts,pts).to_dense()
    def full(Ws):
        out=Ws[0]
        for w in Ws[1:]:
            out=(out.unsqueeze(-1)*w.unsqueeze(-2)).reshape(out.shape[0],-1)
        return out
    return full(W(x1))@K@full(W(x2)).T
torch.manual_seed(0)
for ard,gs,gb in [(False,[20,20],[(0.,1.),(0.,1.)]),(True,[20,20],[(0.,1.),(0.,1.)]),(False,[20,30],[(0.,1.),(0.,1.)]),(False,[20,20],[(0.,1.),(0.,2.)]),(True,[30,40],[(0.,1.),(0.,2.)])]:
    base=gpytorch.kernels.RBFKernel(ard_num_dims=2 if ard else None).to(D)
    base.lengthscale=torch.tensor([[0.3,1.1]],dtype=D) if ard else 0.5
    k=gpytorch.kernels.GridInterpolationKernel(base, grid_size=gs, grid_bounds=gb).to(D)
    x=torch.rand(6,2,dtype=D)*torch.tensor([0.8*gb[0][1],0.8*gb[1][1]])+0.1
    with torch.no_grad():
        Ka=k(x,x).to_dense(); Kb=base(x,x).to_dense(); Kc=ski_dense(base,k.grid,x,x)
    print(ard,gs,gb,"code-vs-base %.2e  oracle-vs-base %.2e  code-vs-oracle %.2e"%((Ka-Kb).abs().max(),(Kc-Kb).abs().max(),(Ka-Kc).abs().max()))
