"""C09/access/grid/*/same/{lazydiag,variance}/raises

GridKernel.forward ignores `diag=True` on its structured path (inputs = its own full grid) and returns the whole Kronecker / Toeplitz
operator.  Kernel.__call__(..., diag=True) repairs that itself, but the lazily evaluated kernel does not: LazyEvaluatedKernelTensor
asks `kernel.forward(x1, x2, diag=True)` for its diagonal and rejects the n x n answer.  So the diagonal of the lazily evaluated GridKernel -
and with it `.variance` / `.stddev` / `confidence_region()` of any MultivariateNormal that holds the lazy kernel, e.g. the prior
`model(train_x)` of an exact GP on gridded data in training mode - raises instead of returning the diagonal of the matrix
`kernel(grid, grid).to_dense()` gives.

Run:  PYTHONPATH=/repo /venv/bin/python /verif/findings/C09/repro_gridkernel_lazy_diagonal.py      (exit 1 = defect present)"""
import sys
import warnings

import torch

import gpytorch

warnings.filterwarnings("ignore")
D = torch.float64
grid = [torch.linspace(0, 1, 3, dtype=D), torch.linspace(-1, 1, 4, dtype=D)]
kern = gpytorch.kernels.GridKernel(gpytorch.kernels.RBFKernel(), grid=grid).to(D)
x = kern.full_grid
bad = 0
with torch.no_grad():
    for mode in ("train", "eval"):
        kern.train(mode == "train")
        for toep in (True, False):
            with gpytorch.settings.use_toeplitz(toep):
                dense_diag = kern(x, x).to_dense().diagonal()
                assert torch.allclose(kern(x, x, diag=True), dense_diag)
                for name, read in (("kernel(x).diagonal()", lambda: kern(x).diagonal(dim1=-1, dim2=-2)),
                                   ("MultivariateNormal(0, kernel(x)).variance", lambda: gpytorch.distributions.MultivariateNormal(torch.zeros(x.shape[0], dtype=D), kern(x)).variance)):
                    try:
                        got = read()
                        ok = torch.allclose(got, dense_diag)
                        msg = "ok" if ok else "differs from the dense diagonal"
                    except Exception as e:
                        ok, msg = False, "%s: %s" % (type(e).__name__, str(e)[:110])
                    print("%-5s use_toeplitz=%-5s %-45s %s" % (mode, toep, name, msg))
                    bad += not ok
if bad:
    print("DEFECT: %d diagonal reads of the lazily evaluated GridKernel fail" % bad)
    sys.exit(1)
print("ok")
