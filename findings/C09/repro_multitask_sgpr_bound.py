"""C09 finding: the SGPR objective of MultitaskKernel(InducingPointKernel) is not the Titsias collapsed bound of the model.

Model: prior covariance Kxx (x) B (B = task covariance of the MultitaskKernel), approximated in training mode by Qxx (x) B,
Qxx = Kxz Kzz^-1 Kzx (inducing variables: all tasks at the inducing inputs), noise I (x) S (S = task noise covariance of
MultitaskGaussianLikelihood incl. the global noise).  Collapsed bound:

    log N(vec Y; vec M, Qxx (x) B + I (x) S)  -  1/2 tr( (I (x) S)^-1 ((Kxx - Qxx) (x) B) )
  = log N(...)                                 -  1/2 tr(Kxx - Qxx) tr(S^-1 B)

InducingPointKernelAddedLossTerm (multitask branch) computes  -1/2 tr(Kxx - Qxx) sum_a 1 / S_aa  instead: it ignores the task covariance B and
the off-diagonal part of S.  The two agree only when B has a unit diagonal and S is diagonal.  With B_aa > 1 the objective is not a lower bound
of the log marginal likelihood any more.

Signatures: C09/objective/sgpr-multitask/task-covar-not-unit-diagonal/*   C09/objective/sgpr-multitask/correlated-task-noise/*
Run: /venv/bin/python findings/C09/repro_multitask_sgpr_bound.py   (from /verif or anywhere; imports /repo)"""
import math
import sys

sys.path.insert(0, "/repo")
import torch  # noqa: E402
import gpytorch  # noqa: E402

torch.set_default_dtype(torch.float64)
torch.manual_seed(0)
n, t = 6, 2
X = torch.rand(n, 1) * 2 - 1
Z = torch.tensor([[-0.7], [0.1], [0.8]])
Y = torch.randn(n, t)


def run(rank_noise, has_global, has_task, unit_diag_B):
    lik = gpytorch.likelihoods.MultitaskGaussianLikelihood(num_tasks=t, rank=rank_noise, has_global_noise=has_global, has_task_noise=has_task)

    class M(gpytorch.models.ExactGP):
        def __init__(s):
            super().__init__(X, Y, lik)
            s.mean_module = gpytorch.means.MultitaskMean(gpytorch.means.ConstantMean(), num_tasks=t)
            s.base = gpytorch.kernels.RBFKernel()
            s.base.lengthscale = 0.5
            s.covar_module = gpytorch.kernels.MultitaskKernel(
                gpytorch.kernels.InducingPointKernel(s.base, inducing_points=Z.clone(), likelihood=lik), num_tasks=t, rank=1)

        def forward(s, x):
            return gpytorch.distributions.MultitaskMultivariateNormal(s.mean_module(x), s.covar_module(x))
    m = M()
    ik = m.covar_module.task_covar_module
    with torch.no_grad():
        ik.covar_factor.copy_(torch.tensor([[0.6], [-0.3]]))
        ik.var = (1 - (ik.covar_factor ** 2).sum(-1)) if unit_diag_B else torch.tensor([0.5, 1.2])
        if has_global:
            lik.noise = 0.3
        if has_task and rank_noise == 0:
            lik.task_noises = torch.tensor([0.2, 0.5])
        if has_task and rank_noise > 0:
            lik.task_noise_covar_factor.copy_(torch.tensor([[0.5, 0.1], [0.3, 0.6]])[:, :rank_noise])
    m.train()
    lik.train()
    mll = gpytorch.mlls.ExactMarginalLogLikelihood(lik, m)
    with torch.no_grad():
        got = float(mll(m(X), Y)) * Y.numel()
        B = ik.covar_factor @ ik.covar_factor.T + torch.diag(ik.var)
        Kxx, Kxz, Kzz = m.base(X, X).to_dense(), m.base(X, Z).to_dense(), m.base(Z, Z).to_dense()
        Q = Kxz @ torch.linalg.solve(Kzz, Kxz.T)
        S = torch.zeros(t, t)
        if has_task:
            S = S + (torch.diag(lik.task_noises) if rank_noise == 0 else lik.task_noise_covar_factor @ lik.task_noise_covar_factor.T)
        if has_global:
            S = S + float(lik.noise) * torch.eye(t)
        A = torch.kron(Q, B) + torch.kron(torch.eye(n), S)
        r = (Y - m.mean_module(X)).reshape(-1)
        logp = -0.5 * r @ torch.linalg.solve(A, r) - 0.5 * torch.logdet(A) - 0.5 * n * t * math.log(2 * math.pi)
        bound = float(logp - 0.5 * (Kxx - Q).diagonal().sum() * torch.trace(torch.linalg.solve(S, B)))
    ok = abs(got - bound) < 1e-8 * max(1, abs(bound))
    print("task noise rank %d, global noise %d, task noise %d, diag(B) = %s:  N * mll = %.8f   collapsed bound = %.8f   %s" % (
        rank_noise, has_global, has_task, [round(float(v), 3) for v in B.diagonal()], got, bound, "ok" if ok else "DIFFERS"))
    return ok


def not_a_lower_bound():
    """part 2: with task variances > 1 the library's objective exceeds the exact log marginal likelihood of the model it approximates
    (a collapsed variational bound never does)"""
    n2 = 8
    X2 = torch.linspace(-1, 1, n2).unsqueeze(-1)
    Z2 = torch.linspace(-0.8, 0.8, 3).unsqueeze(-1)
    lik = gpytorch.likelihoods.MultitaskGaussianLikelihood(num_tasks=t, rank=0, has_task_noise=False)
    base = gpytorch.kernels.RBFKernel()
    base.lengthscale = 1.0
    B = 20.0 * torch.eye(t)
    with torch.no_grad():
        lik.noise = 0.1
        Kfull = torch.kron(base(X2, X2).to_dense(), B) + 0.1 * torch.eye(n2 * t)
    worst = None
    for seed in range(20):
        torch.manual_seed(seed)
        y = torch.distributions.MultivariateNormal(torch.zeros(n2 * t), Kfull).sample()
        Y2 = y.reshape(n2, t)

        class M(gpytorch.models.ExactGP):
            def __init__(s):
                super().__init__(X2, Y2, lik)
                s.mean_module = gpytorch.means.MultitaskMean(gpytorch.means.ZeroMean(), num_tasks=t)
                s.covar_module = gpytorch.kernels.MultitaskKernel(
                    gpytorch.kernels.InducingPointKernel(base, inducing_points=Z2.clone(), likelihood=lik), num_tasks=t, rank=0)

            def forward(s, x):
                return gpytorch.distributions.MultitaskMultivariateNormal(s.mean_module(x), s.covar_module(x))
        m = M()
        with torch.no_grad():
            m.covar_module.task_covar_module.var = torch.full((t,), 20.0)
        m.train()
        lik.train()
        with torch.no_grad():
            obj = float(gpytorch.mlls.ExactMarginalLogLikelihood(lik, m)(m(X2), Y2)) * Y2.numel()
            exact = float(torch.distributions.MultivariateNormal(torch.zeros(n2 * t), Kfull).log_prob(y))
        if worst is None or obj - exact > worst[0]:
            worst = (obj - exact, seed, obj, exact)
    print("task covariance 20 I, noise 0.1, 3 inducing points, seed %d: SGPR objective N * mll = %.4f, exact log marginal likelihood %.4f: %s" % (
        worst[1], worst[2], worst[3], "NOT A LOWER BOUND" if worst[0] > 1e-6 else "ok"))
    return worst[0] <= 1e-6


bad = 0
for unit in (True, False):
    for cfg in ((0, True, False), (0, False, True), (0, True, True), (1, True, True), (2, False, True)):
        bad += not run(*cfg, unit)
bad += not not_a_lower_bound()
sys.exit(1 if bad else 0)
