"""C09/gridpred/test-shares-one-training-extreme/*

GridInterpolationKernel without `grid_bounds` lays its grid over the data of the first call and re-lays it whenever an
evaluation sees data outside `_tight_grid_bounds`.  Algebraically the tight bounds are exactly the extent the grid was
fitted to (x_min - 2.01 s + 2.01 * (b1 - b0) / grid_size = x_min), but they are RE-COMPUTED in floating point and come out
an ulp inside that extent about half of the time.  A test set that contains a training extreme (e.g. it starts at the
smallest training input) while its other end lies inside the training range is then "outside": within ONE prediction
the test/test block is evaluated on a grid re-laid over the test inputs, the test/train block (and the strategy's caches) on
the grid of the training inputs.  The predictive covariance is not the conditional of any single SKI matrix (errors 1e-3 ..
5e-2); the mean is unaffected.  A test set sharing BOTH extremes re-lays the identical grid and is harmless - that is the only
case the repository's KISS-GP tests contain.

Run:  PYTHONPATH=/repo /venv/bin/python /verif/findings/C09/repro_dynamic_grid_shared_extreme.py      (exit 1 = defect present)"""
import sys
import warnings

import torch

import gpytorch

warnings.filterwarnings("ignore")
D = torch.float64


class KissGP(gpytorch.models.ExactGP):
    def __init__(self, x, y, lik, grid_size):
        super().__init__(x, y, lik)
        self.mean_module = gpytorch.means.ConstantMean()
        self.covar_module = gpytorch.kernels.ScaleKernel(
            gpytorch.kernels.GridInterpolationKernel(gpytorch.kernels.RBFKernel(), grid_size=grid_size, num_dims=x.shape[-1]))

    def forward(self, x):
        return gpytorch.distributions.MultivariateNormal(self.mean_module(x), self.covar_module(x))


def run(lo, hi, grid_size, test_lo, test_hi):
    x = torch.linspace(lo, hi, 30, dtype=D).unsqueeze(-1)
    y = torch.sin(6 * x.squeeze(-1))
    lik = gpytorch.likelihoods.GaussianLikelihood()
    model = KissGP(x, y, lik, grid_size).to(D)
    with torch.no_grad():
        lik.noise = 0.05
        model.covar_module.base_kernel.base_kernel.lengthscale = 0.15 * (hi - lo)
    model.eval()
    lik.eval()
    xs = torch.linspace(test_lo, test_hi, 7, dtype=D).unsqueeze(-1)
    with torch.no_grad():
        pred = model(xs)
        got = pred.covariance_matrix
        kern = model.covar_module.base_kernel
        tight = kern._tight_grid_bounds[0]
        n = x.shape[0]
        K = model.covar_module(torch.cat([x, xs])).to_dense()
        A = K[:n, :n] + lik.noise * torch.eye(n, dtype=D)
        ref = K[n:, n:] - K[n:, :n] @ torch.linalg.solve(A, K[:n, n:])
    return float((got - ref).abs().max()), tight


bad = 0
for lo, hi, gs in ((0.0, 1.0, 20), (0.0, 1.0, 16), (-0.7, 1.3, 12), (0.1, 0.9, 10), (-1.0, 0.5, 25), (0.0, 3.0, 14)):
    L = hi - lo
    for name, tlo, thi in (("test starts AT the training minimum, ends inside", lo, lo + 0.6 * L), ("test starts inside, ends AT the training maximum", lo + 0.4 * L, hi),
                           ("test well inside (control)", lo + 0.2 * L, lo + 0.7 * L), ("test has the same extent (control)", lo, hi)):
        err, tight = run(lo, hi, gs, tlo, thi)
        flag = "" if err < 1e-7 else "   <-- differs from the dense conditional of covar_module(cat(train, test))"
        print("train [%g, %g] grid %d, tight bounds (%.17g, %.17g): %-50s |cov - dense| = %.2e%s" % (lo, hi, gs, tight[0], tight[1], name, err, flag))
        bad += err >= 1e-7
g = torch.Generator().manual_seed(0)
hits = 0
for k in range(40):          # how often: random training extents
    lo = float(torch.rand(1, generator=g, dtype=D)) * 2 - 2
    hi = lo + 0.5 + 2 * float(torch.rand(1, generator=g, dtype=D))
    hits += run(lo, hi, 16, lo, lo + 0.6 * (hi - lo))[0] >= 1e-7 or run(lo, hi, 16, lo + 0.4 * (hi - lo), hi)[0] >= 1e-7
print("random training extents, grid 16: %d of 40 have a test set sharing one extreme whose covariance is wrong" % hits)
bad += hits
if bad:
    print("DEFECT: %d prediction(s) mix two grids although every test input lies inside the closed training range" % bad)
    sys.exit(1)
print("ok")
