import torch, gpytorch
D = torch.float64
k = gpytorch.kernels.GridInterpolationKernel(gpytorch.kernels.RBFKernel(), grid_size=16, num_dims=1).to(D)   # grid_bounds=None (default)
x = torch.linspace(0, 1, 10, dtype=D).unsqueeze(-1)
xs = torch.tensor([[0.31], [0.52], [0.64]], dtype=D)
with torch.no_grad():
    J = k(torch.cat([x, xs])).to_dense()          # the approximate matrix of the joint [X; X*]
    g1 = k.grid[0].clone()
    Kss = k(xs).to_dense()                        # what the prediction strategy evaluates for the test-test block
    g2 = k.grid[0].clone()
print("has_initialized_grid:", bool(k.has_initialized_grid))
print("grid after joint call:", g1[:3].tolist(), " after k(xs):", g2[:3].tolist())
print("max |J[10:,10:] - k(xs)| =", (J[10:, 10:] - Kss).abs().max().item())
