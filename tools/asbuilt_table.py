#!/usr/bin/env python3
"""Markdown table: per property the spec modules, level, quick-tier numbers (from evidence/*.json as last written)."""
import glob, json, os, re
V = os.path.dirname(os.path.dirname(os.path.abspath(__file__)))
man = json.load(open(os.path.join(V, "MANIFEST.json")))
kf = json.load(open(os.path.join(V, "known_findings.json")))["findings"]
print("| id | spec modules | level | TLC states | evaluations | distinct non-trivial | traces | quick wall (s) | known / fixed findings |")
print("|---|---|---|---|---|---|---|---|---|")
for c in man["checks"]:
    pid = c["property_id"]
    mods = set()
    for fn in glob.glob(os.path.join(V, "checks", pid.lower() + "*.py")):
        src = open(fn).read()
        mods.update(m for m in re.findall(r"EXTENDS (\w+)", src) if os.path.exists(os.path.join(V, "spec", m + ".tla")))
        mods.update(m for m in re.findall(r'"(\w+)"', src) if os.path.exists(os.path.join(V, "spec", m + ".tla")))
        mods.update(m for m in re.findall(r"(\w+)\.tla", src) if os.path.exists(os.path.join(V, "spec", m + ".tla")))
    # modules reached through EXTENDS / INSTANCE of the ones found
    grew = True
    while grew:
        grew = False
        for m in list(mods):
            for line in re.findall(r"^(?:EXTENDS|INSTANCE) (.*)$", open(os.path.join(V, "spec", m + ".tla")).read(), re.M):
                for d in re.findall(r"\w+", line):
                    if d not in mods and os.path.exists(os.path.join(V, "spec", d + ".tla")):
                        mods.add(d)
                        grew = True
    try:
        e = json.load(open(os.path.join(V, "evidence", pid + ".json")))
        cov = e["coverage"]
        nums = (cov.get("states", 0), cov.get("evaluations", 0), cov.get("distinct_nontrivial", 0), cov.get("traces_validated_against_impl", 0), e["wall_s"], e["tier"])
    except Exception:
        nums = ("?",) * 6
    k = sum(1 for f in kf if f["property"] == pid and f["status"] == "known")
    fx = sum(1 for f in kf if f["property"] == pid and f["status"] == "fixed")
    print("| %s | %s | %s | %s | %s | %s | %s | %s (%s) | %d / %d |" % (pid, ", ".join(sorted(mods)), c["level_claimed"]["category"], nums[0], nums[1], nums[2], nums[3], nums[4], nums[5], k, fx))
