#!/usr/bin/env python3
"""Replace the generated tables of DESIGN.md sections 12.4 (seeded changes) and 12.5 (per-property summary) with fresh output of
tools/seed_table.py and tools/asbuilt_table.py."""
import os
import subprocess
import sys

V = os.path.dirname(os.path.dirname(os.path.abspath(__file__)))
p = os.path.join(V, "DESIGN.md")
lines = open(p).read().split("\n")


def splice(header_prefix, new_text):
    i = next(k for k, ln in enumerate(lines) if ln.startswith(header_prefix))
    j = i
    while j < len(lines) and lines[j].startswith("|"):
        j += 1
    lines[i:j] = new_text.rstrip("\n").split("\n")


for tool, hdr in (("seed_table.py", "| seed | property | site |"), ("asbuilt_table.py", None)):
    out = subprocess.run([sys.executable, os.path.join(V, "tools", tool)], capture_output=True, text=True, check=True).stdout
    if hdr is None:
        hdr = out.split("\n")[0][:30]
    splice(hdr, out)
open(p, "w").write("\n".join(lines))
print("spliced")
