#!/bin/bash
# usage: tools_baseline.sh <repo-or-worktree-dir> <out-prefix>; runs the pinned suite guard-off and compares with BASELINE stable_pass
dir=$1; out=$2
cd $dir && env -u GPYTORCH_VERIF_TRACE /venv/bin/python -m pytest -ra -q -p no:cacheprovider --timeout=900 --continue-on-collection-errors --junitxml=$out.xml > $out.log 2>&1
/venv/bin/python - $out.xml <<'PY'
import sys, json, xml.etree.ElementTree as ET
b=json.load(open('/root/.vp/BASELINE.json')); sp=set(b['stable_pass'])
passed=set()
for tc in ET.parse(sys.argv[1]).getroot().iter('testcase'):
    ok = not any(ch.tag in ('failure','error','skipped') for ch in tc)
    if ok: passed.add(tc.get('classname')+'::'+tc.get('name'))
missing=sorted(sp-passed)
print('stable_pass', len(sp), 'passed now', len(passed), 'missing', len(missing))
for m in missing[:20]: print('  MISSING', m)
PY
