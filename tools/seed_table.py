#!/usr/bin/env python3
"""Print the markdown table of seeded changes (seeded/*/meta.json): what each needs to manifest and which checks catch it."""
import glob
import json
import os
import re

V = os.path.dirname(os.path.dirname(os.path.abspath(__file__)))
rows = []
for mp in sorted(glob.glob(os.path.join(V, "seeded", "*", "meta.json"))):
    m = json.load(open(mp))
    notes = m.get("needs_to_manifest", "")
    first = ""
    for ln in notes.splitlines():
        ln = ln.strip(" #*-")
        if len(ln) > 25:
            first = ln
            break
    diff = open(os.path.join(os.path.dirname(mp), "patch.diff")).read()
    files = sorted(set(re.findall(r"^\+\+\+ b/(\S+)", diff, re.M)))
    ran = ", ".join("%s:%s" % (r["check"], "caught" if r["exit"] == 1 else ("machinery" if r["exit"] == 2 else "missed")) for r in m.get("ran", []))
    rows.append("| %s | %s | %s | %s | %s |" % (m["seed_id"], m["property"], ", ".join(os.path.basename(f) for f in files), first[:150].replace("|", "/"), ran))
print("| seed | property | site | what it is / needs | checks (quick tier) |")
print("|---|---|---|---|---|")
print("\n".join(rows))
