#!/bin/bash
# usage: baseline_x.sh <repo-or-worktree-dir> <out-prefix> [workers]
# like tools/baseline.sh (pinned suite, guard off, compared with BASELINE stable_pass) but with pytest-xdist workers:
# a pre-commit validation of a candidate fix when the machine is too loaded for the serial run.
dir=$1; out=$2; n=${3:-6}
cd $dir && env -u GPYTORCH_VERIF_TRACE OMP_NUM_THREADS=1 /venv/bin/python -m pytest -ra -q -p no:cacheprovider --timeout=1800 --continue-on-collection-errors -n $n --junitxml=$out.xml > $out.log 2>&1
/venv/bin/python - $out.xml <<'PY'
import sys, json, xml.etree.ElementTree as ET
b=json.load(open('/root/.vp/BASELINE.json')); sp=set(b['stable_pass'])
passed=set()
for tc in ET.parse(sys.argv[1]).getroot().iter('testcase'):
    ok = not any(ch.tag in ('failure','error','skipped') for ch in tc)
    if ok: passed.add(tc.get('classname')+'::'+tc.get('name'))
missing=sorted(sp-passed)
print('stable_pass', len(sp), 'passed now', len(passed), 'missing', len(missing))
for m in missing[:40]: print('  MISSING', m)
PY
