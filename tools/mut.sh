#!/bin/bash
# usage: mut.sh <file relative to repo> <check id> '<old>=><new>' [lines]   -- runs in a scratch worktree, never touches /repo
WT=${MUT_WT:-/tmp/wt_mut}
if [ ! -d $WT ]; then git -C /repo worktree add -q --detach $WT HEAD; fi
git -C $WT checkout -q --detach $(git -C /repo rev-parse HEAD) 2>/dev/null; git -C $WT checkout -- . 
python3 - "$WT/$1" "$3" <<'PY'
import sys
p=sys.argv[1]
s=open(p).read()
old,new=sys.argv[2].split('=>')
assert s.count(old)>=1, 'pattern not found'
open(p,'w').write(s.replace(old,new,1))
PY
cd /verif && VERIF_REPO=$WT VERIF_OUT=${MUT_OUT:-/tmp/mut_out} ./check $2 > /tmp/mut_out_$2.txt 2>&1; echo "exit=$?"; grep -c "^VIOLATION" /tmp/mut_out_$2.txt; grep "cell=\|PASS\|FAIL\|MACH" /tmp/mut_out_$2.txt | cut -c1-300 | head -${4:-4}
git -C $WT checkout -- .
