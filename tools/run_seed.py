#!/usr/bin/env python3
"""Confirm a seeded mutation and run checks against it.

usage: run_seed.py <seed id> <property id> <patch.diff> <demo.py> [--checks C03,C18] [--tier quick] [--notes notes.md]

1. demo on a clean scratch worktree of /repo HEAD  -> must exit 0
2. demo with the patch applied                      -> must exit non-zero
3. each requested check (default: the property's own) against the patched worktree (VERIF_REPO) -> records exit code and cells
Writes /verif/seeded/<seed id>/{patch.diff, demo.py, meta.json}.  Never touches /repo's working tree."""
import argparse
import json
import os
import re
import shutil
import subprocess
import sys
import time

V = os.path.dirname(os.path.dirname(os.path.abspath(__file__)))


def sh(cmd, cwd=None, env=None, timeout=3600):
    p = subprocess.run(cmd, cwd=cwd, env=env, shell=isinstance(cmd, str), stdout=subprocess.PIPE, stderr=subprocess.STDOUT, text=True, timeout=timeout)
    return p.returncode, p.stdout


def main():
    ap = argparse.ArgumentParser()
    ap.add_argument("sid")
    ap.add_argument("pid")
    ap.add_argument("patch")
    ap.add_argument("demo")
    ap.add_argument("--checks")
    ap.add_argument("--tier", default="quick")
    ap.add_argument("--notes")
    a = ap.parse_args()
    wt = "/tmp/seedrun_wt_%s" % a.sid
    out = "/tmp/seedrun_out_%s" % a.sid
    shutil.rmtree(out, ignore_errors=True)
    if os.path.isdir(wt):
        sh(["git", "-C", "/repo", "worktree", "remove", "--force", wt])
    rc, o = sh(["git", "-C", "/repo", "worktree", "add", "-q", "--detach", wt, "HEAD"])
    if rc:
        print(o)
        sys.exit(2)
    env = dict(os.environ, PYTHONDONTWRITEBYTECODE="1", OMP_NUM_THREADS="1")
    env.pop("GPYTORCH_VERIF_TRACE", None)
    meta = dict(seed_id=a.sid, property=a.pid, repo_head=sh(["git", "-C", "/repo", "rev-parse", "--short", "HEAD"])[1].strip(), ran=[])
    try:
        rc0, o0 = sh(["/venv/bin/python", "-W", "ignore", os.path.abspath(a.demo)], cwd=wt, env=env)
        meta["demo_clean_exit"] = rc0
        rc, o = sh(["git", "apply", os.path.abspath(a.patch)], cwd=wt)
        if rc:       # the tree moved on since the change was written (fix commits): apply with context fuzz
            rc2, o2 = sh("patch -p1 -F3 --no-backup-if-mismatch < %s" % os.path.abspath(a.patch), cwd=wt)
            if rc2 == 0:
                rc, o = 0, o2
                meta["patch_rebased_with_fuzz"] = True
        if rc:
            print("patch does not apply:", o)
            meta["patch_applies"] = False
            sys.exit(2)
        meta["patch_applies"] = True
        rc1, o1 = sh(["/venv/bin/python", "-W", "ignore", os.path.abspath(a.demo)], cwd=wt, env=env)
        meta["demo_mutant_exit"] = rc1
        meta["demo_mutant_output"] = o1[-600:]
        meta["confirmed"] = (rc0 == 0 and rc1 != 0)
        print("demo: clean exit %d, mutant exit %d -> %s" % (rc0, rc1, "CONFIRMED" if meta["confirmed"] else "NOT CONFIRMED"))
        meta["files_changed"] = sh("git diff --stat | tail -1", cwd=wt)[1].strip()
        for pid in (a.checks.split(",") if a.checks else [a.pid]):
            t0 = time.time()
            env2 = dict(os.environ, VERIF_REPO=wt, VERIF_OUT=out, VERIF_MAXCELLS="6")
            rc, o = sh([os.path.join(V, "check"), pid, "--tier", a.tier], cwd=V, env=env2, timeout=7200)
            cells = [ln.strip()[:300] for ln in o.splitlines() if ln.strip().startswith("cell=")]
            nviol = len([ln for ln in o.splitlines() if ln.startswith("VIOLATION")])
            verdict = [ln for ln in o.splitlines() if ln.startswith(("PASS", "FAIL", "MACHINERY"))]
            meta["ran"].append(dict(check=pid, tier=a.tier, exit=rc, violation_lines=nviol, cells=cells[:6], verdict=verdict[-1:] , wall_s=round(time.time() - t0, 1)))
            print("check %s (%s): exit %d, %d VIOLATION lines %s" % (pid, a.tier, rc, nviol, verdict[-1:] if verdict else ""))
            for c in cells[:3]:
                print("   ", c[:260])
        meta["caught_by"] = [r["check"] for r in meta["ran"] if r["exit"] == 1]
    finally:
        sh(["git", "-C", "/repo", "worktree", "remove", "--force", wt])
        shutil.rmtree(out, ignore_errors=True)
    d = os.path.join(V, "seeded", a.sid)
    os.makedirs(d, exist_ok=True)
    for src, dst in ((a.patch, "patch.diff"), (a.demo, "demo.py")):
        if os.path.abspath(src) != os.path.join(d, dst):
            shutil.copy(src, os.path.join(d, dst))
    if a.notes and os.path.exists(a.notes) and os.path.abspath(a.notes) != os.path.join(d, "notes.md"):
        shutil.copy(a.notes, os.path.join(d, "notes.md"))
    if os.path.exists(os.path.join(d, "notes.md")):
        meta["needs_to_manifest"] = open(os.path.join(d, "notes.md")).read()[:1500]
    old = {}
    mp = os.path.join(d, "meta.json")
    if os.path.exists(mp):
        old = json.load(open(mp))
        prev = {(r["check"], r["tier"]): r for r in old.get("ran", [])}
        for r in meta["ran"]:
            prev[(r["check"], r["tier"])] = r
        meta["ran"] = list(prev.values())
        meta["caught_by"] = sorted({r["check"] for r in meta["ran"] if r["exit"] == 1})
    json.dump(meta, open(mp, "w"), indent=1)


if __name__ == "__main__":
    main()
