#!/usr/bin/env python3
"""Regenerate /verif/MANIFEST.json from the table below (single source of truth) and validate it."""
import json
import os
import subprocess

V = os.path.dirname(os.path.dirname(os.path.abspath(__file__)))
PROPS = [json.loads(l)["id"] for l in open(os.path.join(V, "properties.jsonl"))]

CLAIMED = {
    "C20": dict(
        category="model_checking",
        text="TLC exhausts the code-shaped settings machine (Settings.tla: construct/enter/exit/unwind-by-exception over every "
             "base-class kind, nesting depth 4-5) against the semantic scoping machine (InnermostWins, RestoredOnExit for every field, "
             "DefaultsOutside, EnterIsLocal); every behaviour up to the length bound is then executed with real `with` statements on "
             "every exported settings class and compared step by step with the semantic machine's observation; executions recorded "
             "from the replays and from the repository's own tests are validated by TLC against SettingsTrace.tla. Exhaustive in "
             "program shape up to the bound, one concrete value per abstract value.",
        design_ref="DESIGN.md section 6 (C20)",
        note="Trusted: TLC, the 3-value abstraction of arguments, the documented defaults transcribed into SettingsCatalog.tla, "
             "single-threaded use. linear_operator classes are observed through run-time wrappers (site-packages is never edited).",
        technique="TLA+ state machine + TLC exhaustive check; spec-behaviour replay into the real classes; TLC trace validation of hook events"),
}
CLAIMED["C11"] = dict(
    category="model_checking",
    text="MTMVN.tla models a MultitaskMultivariateNormal as labelled (point, task) variables with a representation invariant (covariance rows "
         "in the order the layout flag promises) and transcribes __getitem__ branch by branch over true Python index semantics (PyIndex.tla); TLC "
         "checks Consistent and MeanIsIndexedMean for every enumerated index expression and chain. Every enumerated case is replayed on a real "
         "distribution whose covariance has unique integer entries, so the selected pairs are decoded exactly; PyIndex.tla itself is validated "
         "against torch indexing on every case. MTLayout.tla checks the view/transpose algebra of mean, variance, log_prob, rsample and "
         "to_data_independent_dist for every (n, t, layout); the replay compares them and the from_* constructors with a flat reference Gaussian.",
    design_ref="DESIGN.md section 6 (C11)",
    note="Exhaustive over the enumerated index families on shapes up to 3x3 (4x2 thorough) with one batch dimension; index tensors 1-d of length <= 2; "
         "log_prob/rsample numerics sampled (seeded SPD covariances, float64, 1e-9).",
    technique="TLA+ exact-function model (index algebra, layout permutations) checked by TLC over the whole finite domain; every case replayed into the real class with exact label decoding")

CLAIMED["C03"] = dict(
    category="model_checking",
    text="GPCache.tla models every cache that outlives a call (prediction strategy with mean/covar caches and grad hooks, kernel attribute caches of "
         "InducingPointKernel/GridKernel, the variational strategy memo and its flags) with tags recording what each entry was computed from, and "
         "every invalidation site of the code as a constant; TLC checks NoStaleServe / NoStrategyWhileTraining over all histories of the public "
         "operations for four families and rejects six models with one invalidation removed (non-vacuity). All histories up to the bound plus seeded "
         "simulations are replayed on real exact / SGPR / KISS-GP / multitask / SVGP / unwhitened-SVGP models; every prediction is compared (mean and "
         "covariance, 1e-8) with a freshly constructed model holding the same parameters and data under the same settings. Cache events recorded from "
         "the replays and from repository tests are validated by TLC against CacheTrace.tla (NoStaleHit, NoStaleStrategy).",
    design_ref="DESIGN.md section 6 (C03)",
    note="Exhaustive over operation sequences up to length 3 (quick) / 4 (thorough) + simulations of depth 10; numeric inputs are seeded samples (6 training "
         "points). The oracle is the code itself on a fresh object (its correctness is C01/C14's business). Settings that select approximations are outside "
         "the alphabet. Direct parameter edits in eval mode are excluded by the property.",
    technique="TLA+ cache state machine checked by TLC (incl. rejected broken variants); spec histories replayed on real models against fresh-model oracle; TLC trace validation of cache hook events")

CLAIMED["C04"] = dict(
    category="model_checking",
    text="Fantasy.tla has three parts, all checked by TLC: the batch-shape reconciliation of get_fantasy_model transcribed and compared with the documented "
         "meaning on every supported (model, input, target) batch triple; the bordered-system update of the cached solve evaluated exactly over rationals "
         "(LinAlg.tla) against the solve of the concatenated system and the Gaussian conditional on all data; and a source/fantasy machine with "
         "SourceUntouched and DataIsConcatenation. Every generated triple x likelihood (homoskedastic, fixed noise, fixed+learned, multitask) x strategy x "
         "fast_pred_var x detach_test_caches x re-fantasizing depth 1..3 is replayed: fantasy predictions vs a fresh ExactGP on the concatenated data (1e-7), "
         "carried A^-1(y-m) and R R^T = A^-1 vs recomputation, source snapshot (state_dict, data identity, cache entries, recorded cache events) before/after.",
    design_ref="DESIGN.md section 6 (C04)",
    note="Rational instances: n,m <= 2 with linear-kernel Gram matrices (250 quick / 1500 thorough); real inputs are seeded samples (5 training, 2 fantasy points "
         "per step). Supported batch patterns are those of the get_fantasy_model docstring; fixed noise is shared when the fantasy inputs are shared.",
    technique="TLA+ shape algebra + exact rational linear algebra in TLC; configurations replayed on real models against a from-scratch oracle and snapshots")
CLAIMED["C12"] = dict(
    category="model_checking",
    text="Noise.tla states, for every cell of the Gaussian-likelihood configuration lattice, the multiset of noise terms the documentation prescribes (each at "
         "most once, Kronecker layout following the input, broadcast batch shape) next to a line-by-line transcription of _shaped_noise_covar, the noise-model "
         "forward methods and the *params/**kwargs/noise= routing including LikelihoodList; TLC checks Code = Expected on the whole lattice. Every cell is "
         "replayed into the real likelihoods with distinguishable noise magnitudes and the bag of terms actually added is decoded exactly from "
         "likelihood(dist).covariance_matrix - dist.covariance_matrix (layout, off-diagonal rank>0 entries, batch shape); expected_log_prob, log_marginal and "
         "the conditional are compared with closed forms at 1e-9.",
    design_ref="DESIGN.md section 6 (C12)",
    note="The discrete dimension (which terms, how often, where) is exhausted by TLC and bound cell by cell; numeric inputs and event sizes (n <= 5, t <= 3) are "
         "sampled. Readings where the docs are ambiguous are listed in the evidence assumptions (FixedNoise on a different n without noise= means R = 0 "
         "[+ learned], noise= on a homoskedastic model is used directly, ...).",
    technique="TLC-enumerated configuration lattice with exact term-multiset decoding replay")

CLAIMED["C16"] = dict(
    category="model_checking",
    text="NanPolicy.tla checks exactly over rationals (LinAlg.tla) that what the two policies compute - mask: delete rows/columns of the missing observations; "
         "fill: zero them keeping the diagonal, filled right-hand side, masked columns - equals the solve and posterior mean of the data set with the "
         "missing observations deleted, states the same for the posterior covariance (the model of the current code, which solves against all training "
         "points, is predicted to fail), and model-checks the policy-keyed mean cache under every order of policy switches (a variant keyed without the "
         "policy is rejected). Every NaN pattern over n points x every policy sequence is replayed on real single-output, multitask and batched exact GPs "
         "against the Gaussian conditional on the observed entries computed from the model's own prior and noise (1e-7); N*mll(mask) vs N_obs*mll(deleted), "
         "expected_log_prob and log_marginal sums over observed entries, and 'no NaN in any output' are checked as well.",
    design_ref="DESIGN.md section 6 (C16)",
    note="Reading: 'rescaled by the count of observed values' = N*mll(mask) equals N_obs*mll(deleted data). mask on batched targets masks an entry for the "
         "whole batch (documented). fill with ExactMarginalLogLikelihood is documented as unsupported. Real inputs are seeded samples (n = 4 quick / 5 thorough).",
    technique="exact rational algebra of mask/fill vs deletion in TLC; TLC cache machine over policy orders; replay of all NaN patterns against the conditional on observed entries")

CLAIMED["C18"] = dict(
    category="model_checking",
    text="Persist.tla models a model as carriers of prediction-relevant state (parameter, buffer, lazily registered buffer, constructor attribute, "
         "random-at-construction attribute, cache with the parameter version it was computed from) and the three mechanisms (state_dict into a freshly "
         "constructed model, pickle, deepcopy) applied at any point of a train/eval/predict/step history; TLC checks RoundTripExact and NoForeignCache on "
         "the carrier inventory obtained by introspection of each real family (a lazily registered buffer is predicted to break state_dict). 24 real "
         "families (exact x kernels/likelihoods/priors/constraints, SGPR, KISS-GP, RFF, multitask, Hadamard+LKJ, LCM, six variational distributions x "
         "strategies, LMC / independent multitask, model list) x 4 save points x 3 mechanisms are replayed: prior, predictive, objective, KL, constraint "
         "bounds and prior parameters of the restored model vs the original (bit-for-bit for pickle/deepcopy, 1e-12 for state_dict; the fresh model is "
         "constructed under another seed with other hyperparameters, prior parameters and bounds).",
    design_ref="DESIGN.md section 6 (C18)",
    note="State drawn on first use (variational initialisation noise) is drawn under the same seed on both sides. Families are those of the zoo in checks/c18.py; "
         "data are fixed small sets (7 points). Loading into an EXISTING model with caches is C03's LoadStateDict action.",
    technique="TLA+ carrier/mechanism machine checked by TLC on the introspected inventory; round trips replayed on a zoo of real model families at TLC save points")

CLAIMED["C01"] = dict(
    category="model_checking",
    text="ExactPosterior.tla enumerates the full lattice of the seven prediction-relevant settings (128 cells) with the computational path each selects "
         "(lazy/evaluated kernel, dense/lazy slicing around the eager-size threshold, Cholesky/CG solve, direct solve / Cholesky root cache / Lanczos root cache, "
         "attached/detached caches, skipped variances) and checks exactly over rationals (LinAlg.tla) that every path formula the code evaluates - joint prior "
         "split at num_train, mean cache, addmm form, K*x R (K*x R)^T with R R^T = A^-1, likelihood noise added once - equals the Gaussian conditional, which is "
         "PSD and never larger than the prior. Replay: (L1) TLC's exact rational posteriors of linear-kernel instances through a real ExactGP on sampled cells; "
         "(L2) seeded models (6 kernel/mean/likelihood families incl. fixed noise and multitask Kronecker x 4 shape classes incl. n=1, model batch, broadcast "
         "test batch) on every cell against the conditional computed densely from the model's own K, m and S (mean, full covariance, variance, "
         "likelihood(posterior)).",
    design_ref="DESIGN.md section 6 (C01)",
    note="Cholesky paths compared at 1e-7, iterative paths (CG tolerance 1e-12, Lanczos at full rank) at 2e-5 (calibrated on the unchanged tree); instances with "
         "cond > 1e4 skipped. The dense reference is the spec's CondMean/CondCov written with torch.linalg (the Expr-tree interpreter of DESIGN section 2 was not "
         "built). Inputs are sampled; the settings lattice is exhaustive.",
    technique="TLA+ settings/path lattice + exact rational path formulas checked by TLC; every cell replayed on real models against the dense conditional")

CLAIMED["C07"] = dict(
    category="exploration",
    text="Validity.tla is a data-growth machine over exact rationals: observations (duplicates allowed) are added one by one and TLC checks in every "
         "reachable state that prior, posterior and prior-minus-posterior covariance are symmetric PSD (principal minors) and across every step that no "
         "posterior variance increases - the design-level statement that the formulas have these properties. The same growth histories are walked on a real "
         "exact GP for 17 kernels on their documented domains and four geometry classes (spread, exact duplicates, rows 1e-9 apart, clustered), and Gram "
         "matrices are checked over kernel x geometry x lengthscale scale 1e-3..1e3: symmetry, eigenvalues >= -1e-8 lambda_max, marginal covariances, monotone "
         "variances, variance/stddev floors under default and custom min_variance, likelihood noise >= its constraint's lower bound for any raw value, and "
         "variational q(u), p(u), q(f) covariances.",
    design_ref="DESIGN.md section 6 (C07)",
    note="Exploration level: exhaustive in kernel x geometry class x growth history, sampled in the real-valued inputs; 'up to rounding' is fixed as lambda_min >= "
         "-1e-8 lambda_max in float64 (differences: relative to the operands).",
    technique="TLA+ growth machine with exact rational PSD checks in TLC; growth histories and a kernel x geometry lattice replayed with float64 eigenvalue checks")

CLAIMED["C10"] = dict(
    category="model_checking",
    text="MVN.tla states 'indexing = marginal of the selected components' as invariants over every index expression of the enumerated families (ints incl. out of "
         "range, slices with start/stop in -(n+2)..n+2 or None and steps None/1/2/3, one ellipsis anywhere, 1-d index tensors incl. negative entries, over-long "
         "indices, chains d[i][j]) on event sizes 1..3 and batch ranks 0..2, against a branch-by-branch transcription of __getitem__; every case is replayed on "
         "real distributions with unique-integer covariances in four representations (dense, lazy, diag, root) and decoded exactly. MVNOps.tla lets TLC check the "
         "expand/repeat shape logic of log_prob against plain broadcasting and the arithmetic / expand / unsqueeze / add_jitter maps in exact rationals; every cell "
         "(broadcast pattern x representation x fast/Cholesky path x operation) is replayed in float64 against a reference log density, closed-form KL, R R^T = "
         "covariance, diag / sqrt / +-2 sigma at 1e-7.",
    design_ref="DESIGN.md section 6 (C10)",
    note="PyIndex.tla is validated against torch indexing on every case. Batch elements are independent. 'Sample moments converge' is statistical and not decided. "
         "Numeric instances are seeded and well conditioned; sizes far below max_cholesky_size.",
    technique="TLC exact-function specs (index algebra, shape algebra, rational maps); exhaustive case replay with label decoding; float64 reference comparison")
CLAIMED["C13"] = dict(
    category="other",
    text="Quadrature.tla: TLC computes the exact rational integral of every integer polynomial up to degree 10 against N(m, v) on a 14-point (m, sqrt v) lattice, "
         "checks the moment recurrence against the closed form, proves for num_locs <= 3 (nodes are square roots of rationals) that the code-shaped rule "
         "(sqrt(2v) x_i + m, weights / sqrt(pi), sum over the location axis) is exact through degree 2n-1 and misses by exactly s^(2n) n! at degree 2n, and "
         "enumerates the shape/index map of forward and the 720 cells likelihood x method x setting-at-construction x setting-at-call x batch shape. Every case is "
         "replayed into the real GaussHermiteQuadrature1D / likelihoods against the exact value (Fractions extend to 40 nodes); the rest is a float64-vs-mpmath "
         "reference comparison: truncation error shrinking over 10/20/40 nodes, Bernoulli marginal Phi(m / sqrt(1+v)), conditional parameters, log_normal_cdf "
         "value (2e-3 / rounding for z >= -1) and derivative.",
    design_ref="DESIGN.md section 6 (C13), section 8",
    note="Level other: model checking decides polynomial exactness and the discrete structure; the accuracy of log_normal_cdf and quadrature truncation on "
         "non-polynomial integrands are reference comparisons on grids (mpmath, 30 digits). Monte-Carlo paths: shape and finiteness only. BetaLikelihood / "
         "LaplaceLikelihood parameters pinned as implemented (docstring discrepancies recorded in the evidence).",
    technique="TLA+/TLC exact rational Gaussian moments + shape and lattice enumeration replayed into the code; mpmath reference comparison")
CLAIMED["C19"] = dict(
    category="other",
    text="Grad.tla (EXTENDS Kernels) enumerates the case lattice of the hand-written backward passes (nu x coincident points x batch x upstream gradient for the "
         "RBF/Matern covariance Functions; fast vs generic branch of every kernel cell; the LogNormalCDF forward/backward masks on a rational grid; natural and "
         "tril-natural parameterisations; CIQ terms; prediction gradients) and decides the rational parts exactly: the masks partition the line, the natural -> "
         "(mu, Sigma) map and the delivered gradient equal the gradient w.r.t. the expectation parameters, (dk/dl)/k of RBF and Matern as rational functions. The "
         "replay compares the Functions with autograd of the same forward in plain torch (1e-7, incl. r = 0), fast and generic branch values and hyperparameter "
         "gradients (1e-9), the log_normal_cdf backward with finite differences of its forward and with phi/Phi, gradients reaching natural_vec / natural_mat with "
         "autograd in the (mu, Sigma + mu mu^T) parameterisation, and prediction gradients w.r.t. test inputs with finite differences (1e-6).",
    design_ref="DESIGN.md section 6 (C05, C19)",
    note="Level other: gradients are sampled on seeded inputs; TLA+ carries the case analysis and the exactly decidable maps. log_normal_cdf for -2.5 <= z < -1 is "
         "compared at 1e-2 (forward derivative) / 2e-3 (phi/Phi); _NgdInterpTerms at 1e-4 (linear_cg accuracy).",
    technique="TLA+ branch lattice + exact rational gradient maps (TLC); replay against autograd / finite differences")

CLAIMED["C02"] = dict(
    category="model_checking",
    text="ExactObjective.tla states the objective as (main term + log prior density of every parameter with a registered prior, at the constrained value, + every "
         "registered added loss term) / observations per batch element. TLC proves over the whole configuration lattice (module DAG incl. a kernel shared by two "
         "paths and multitask, batched/unbatched prior sites, added-loss states, batch shapes of rank 0-2, N, MLL/LOO/SumMLL) that the transcribed assembly code "
         "equals it on the conventional sub-lattice (the remaining cells are the known finding), and on exact rational instances that the bordered LOO formulas "
         "and the elimination path equal the Gaussian conditional / determinant / quadratic form. Every configuration is replayed into the real "
         "ExactMarginalLogLikelihood / LeaveOneOutPseudoLikelihood / SumMarginalLogLikelihood with distinguishable stub priors and stub added-loss terms (term "
         "multiset decoded exactly); the rational instances run through real ExactGP+LinearKernel against TLC's exact values (1e-9); 672 float64 cells compare "
         "value (1e-7) and the gradient w.r.t. every raw hyperparameter (1e-6) with a torch.linalg reference built from the model's own K, m, S.",
    design_ref="DESIGN.md section 6 (C02)",
    note="Cholesky paths only: the stochastic CG/Lanczos path 'within its statistical tolerance' is not decided. LOO single-output. Parameters fully batched or "
         "unbatched. observation_nan_policy belongs to C16.",
    technique="TLC lattice enumeration + exact rational linear algebra; stub decoding replay; dense reference with autograd")
CLAIMED["C05"] = dict(
    category="other",
    text="Kernels.tla enumerates the configuration lattice of Kernel.__call__ (25 kernel families x input dimension x ARD x active_dims x composition x batch x "
         "evaluation mode x path forcing) and transcribes the dispatch predicate of RBFKernel / MaternKernel, so TLC states which branch every cell takes. All "
         "6,992 cells are evaluated through the real kernels on seeded float64 inputs and compared at 1e-9 with the documented covariance function written "
         "independently from the docstrings; derivative kernels are compared with autograd derivatives of the base formula entry by entry in the interleaved "
         "layout; both branches of the two-path kernels run and a spy confirms the predicted branch. The rational parts are decided exactly by TLC and replayed at "
         "1e-12: linear / polynomial / constant expressions with Scale / Sum / Product and active_dims, PolynomialKernelGrad entries, RBF grad and grad-grad "
         "derivative-to-base ratios, the piecewise polynomials on rational distances, both Newton-Girard recurrences against the explicit subset sum, the "
         "perfect-shuffle layout for n1 != n2.",
    design_ref="DESIGN.md section 6 (C05, C19)",
    note="Level other: the numeric dimension is sampled, so the assurance is that of a reference-formula comparison on a systematically enumerated lattice. "
         "Trusted: checks/c05_ref.py (formulas from the docstrings), torch.autograd, mpmath. Readings where docstring and code leave room are in the evidence "
         "assumptions. Structured kernels (Index, Multitask, LCM, Grid, InducingPoint, RFF) are C09/C06's.",
    technique="TLA+ configuration lattice + exact rational kernel algebra (TLC), replayed into the real kernels against documented formulas")
CLAIMED["C08"] = dict(
    category="model_checking",
    text="Batch.tla / Shapes.tla: TLC enumerates every parameter / data batch-shape triple of rank 0..2 over sizes {1,2,3} (2197 triples), checks the broadcasting "
         "algebra (commutative, associative, idempotent, equal to numpy's rule, un-broadcast indices in range, unique and surjective) and 17 transcribed library "
         "alignment sites (lengthscale, outputscale, RQ alpha, ConstantMean, LinearMean, noise, ConstantKernel, the Kernel.__call__ diag heuristic, MultitaskKernel "
         "repeat, variational) against right-aligned broadcasting, and emits for the 1021 broadcastable triples every element b with its replica indices. The "
         "replay compares each element of the batched output of 40 kernel configurations, 4 means, GaussianLikelihood, exact GP (prior, MLL, posterior, "
         "predictive), SVGP (q(f), KL, ELBO), IndependentModelList and SumMarginalLogLikelihood with a freshly built non-batched replica (1e-10 kernels / 1e-7 models).",
    design_ref="DESIGN.md section 6 (C08)",
    note="The replica is the same library on the non-batched path (its correctness is C01/C05/C14's). Batch rank <= 2, axis sizes <= 3; derivative / grid / "
         "inducing-point kernels and multitask likelihoods are not replayed. Real-valued parameters and data are seeded samples.",
    technique="TLC exact-function enumeration of batch-shape triples plus metamorphic replica replay")
CLAIMED["C14"] = dict(
    category="model_checking",
    text="VariationalQF.tla states the denotation (q(u) pushed through p(f|u); the KL as trace, quadratic form and determinants) next to code-shaped "
         "transcriptions of VariationalStrategy.forward, UnwhitenedVariationalStrategy.forward, kl_mvn_mvn and the five variational distributions' forward maps; "
         "TLC checks over exact rationals that they agree, that whitened and unwhitened strategies on the same q(u) coincide, that q = p gives the prior and KL "
         "0, that LMC / independent wrappers equal the coefficient mixture, enumerates the 288-cell strategy x distribution x batch-shape lattice and all "
         "training-mode call histories, and rejects a variant without the training-mode cache clear. Replay: the rational instances through the real strategies "
         "against TLC's exact mean, full covariance and KL pieces; every lattice cell on seeded RBF / Matern models (eval: mean, full covariance, KL; train: mean, "
         "variance, KL) against the closed form on the model's own prior; every generated history with optimizer steps.",
    design_ref="DESIGN.md section 6 (C14)",
    note="The jitter the strategies add counts as part of the prior the model evaluates to and is compared exactly where the code adds it; another admissible "
         "placement is MODEL-DRIFT, not a violation. CIQ is checked at 2e-6 with tightened solver settings on 2-3 inducing points. Numeric dimension sampled at 1e-7.",
    technique="TLC exact-rational evaluation + lattice/history enumeration, replay against closed forms")
CLAIMED["C15"] = dict(
    category="model_checking",
    text="VarObjective.tla: TLC enumerates all 2,160 objective configurations (objective class, B, declared N, beta in {1, 1/2, 0}, combine_terms, 0-2 priors, 0-1 "
         "added losses, event rank) and checks in exact rationals that the transcription of _ApproximateMarginalLogLikelihood.forward equals the definition; every "
         "configuration is decoded on the real VariationalELBO / PredictiveLogLikelihood / GammaRobustVariationalELBO with distinguishable stubs. On integer "
         "linear-kernel instances TLC proves that the closed-form optimal q(u) is the Gaussian conditional, that the ELBO there equals the collapsed bound and "
         "that N*ELBO(q) = collapsed - KL(q || q_opt) on a q family; real whitened and unwhitened SVGP models must return TLC's exact ELBO pieces (1e-8). The "
         "natural-gradient loop is a state machine (steps of size 1 and 1/2, lr-0 hyperparameter steps, depth 3): a step of size 1 reaches the optimum and every "
         "step from the optimum is a fixed point; the real NaturalVariationalDistribution with gpytorch.optim.NGD must pass through TLC's exact q(u) after every "
         "action. 156 seeded float64 cells are compared with the definition, the exact log marginal, collapsed - KL and the optimal q(u).",
    design_ref="DESIGN.md section 6 (C15)",
    note="Gaussian likelihood only; the one-step claim is checked for NaturalVariationalDistribution (TrilNatural is checked for what its docs promise). Both "
         "placements of the Kxx jitter are accepted within n*j/(2 s^2). The inequality for all q(u) is sampled.",
    technique="TLC exact-rational enumeration + stub decoding + replay of TLC histories/cases into the real classes")
CLAIMED["C17"] = dict(
    category="model_checking",
    text="Constraint.tla model-checks a code-shaped model of one constrained parameter (setter, raw initialize, initialize by name, optimiser step, "
         "register_constraint, sample_from_prior, setting closure) against the semantic machine (InBounds, SetThenRead, RejectIffOutside) over all operation "
         "histories (length 2 over the full 14-value alphabet, length 4/5 over reduced alphabets, from Interval / GreaterThan / LessThan). Every history is executed "
         "on every constrained parameter of every exported kernel, likelihood and mean found by introspection (445 cells), with scalar and tensor-valued bounds "
         "and abstract values realised as exact bounds, 1 ulp, +-1e-300, +-1e300, +-inf and NaN, comparing the real state with the semantic expectation after "
         "each step. The transform contract (monotone, closed range, inverse) is swept over the float range for every constraint class / transform / bound set. "
         "ConstraintPriors.tla enumerates rational (family, parameters, point) cases; every exported prior class is compared with its documented density (mpmath) "
         "with normalisation by quadrature; closures, sample_from_prior and the MLL prior terms are checked on real modules.",
    design_ref="DESIGN.md section 6 (C17)",
    note="Exact-bound and within-1e-6 assignments may go either way; the closed interval is checked with a slack of 4e-15 * max |bound|; the outcome of intersect "
         "is left open. The float dimension is sampled (dense grid), not exhaustive.",
    technique="TLC state machine with history replay into every constrained parameter found by introspection; float-grid contract sweep; mpmath densities at TLC-chosen rational points")

CLAIMED["C09"] = dict(
    category="model_checking",
    text="Structured.tla: TLC checks over complete small domains that the Kronecker multitask layout, the index/Hadamard lookup, the LCM sum and the grid kernel "
         "(Toeplitz per dimension, ragged padding, Kronecker order against create_data_from_grid and against the interpolation indices) equal their dense "
         "formulas. Interp.tla transcribes Interpolation.interpolate exactly over rationals: weights sum to one, exact at nodes, reproduce polynomials up to degree "
         "2 in the interior, indices in range, 2-D = tensor product, on every step-1/4 lattice target of 1-D and 2-D grids. On exact rational instances TLC proves "
         "that the code-shaped Nystrom root, the SGPR Woodbury cache, Titsias' predictive equations, the collapsed-bound pieces, the RFF feature-space cache and the "
         "WISKI fantasy caches equal the dense Gaussian conditional. Every TLC case is replayed into the real kernels, interpolate() and SGPR models against TLC's "
         "exact values; seeded float64 sweeps compare every structured kernel with its dense formula and every kernel-specific prediction strategy with "
         "DefaultPredictionStrategy forced onto the same approximate matrix (Cholesky/CG, fast_pred_var, sgpr_diagonal_correction, use_toeplitz, WISKI fantasies); "
         "the SGPR objective is compared with the collapsed bound.",
    design_ref="DESIGN.md section 6 (C09)",
    note="'Converges to the base kernel as the grid is refined' is not decided (a 3-size error table only). fast_pred_samples: shape only. CG cells at 5e-4 (linear_cg "
         "freezes columns at residual 1e-10). Grids float64 and equally spaced; strategies created under lazy kernel evaluation; fantasy parameters do not require grad.",
    technique="TLA+/TLC exact index maps and rational algebra replayed into the code; dense-twin default strategy as oracle")

CLAIMED["C06"] = dict(
    category="model_checking",
    text="LazyKernel.tla transcribes _getitem, _size, transposition, unsqueeze, repeat and diagonal of LazyEvaluatedKernelTensor, Kernel.__getitem__ / expand_batch "
         "acting on every parameter and buffer, and linear_operator's index preprocessing, all on integer-labelled tensors. TLC enumerates exhaustively, per "
         "broadcast pattern and t in {1,2,3}, the index expressions (all slices with out-of-range bounds and steps, ints, 1-d index tensors, ellipsis placements, "
         "batch indices, chains) and operations, and checks that the code-shaped result equals numpy indexing (PyIndex!TIndex) of the dense label tensor except in "
         "named syntactic classes (the known findings). Every case is replayed on a label stub kernel whose entries are the spec's labels (exact equality, oracle "
         "validated against torch on every case) and on 34 zoo kernels in float64 at 1e-10 against the same torch operation on the dense matrix; five metamorphic "
         "relations (diag = diagonal, transpose symmetry, lazy = eager, stacked-input blocks, active_dims twin) run on all kernels x all enumerated patterns.",
    design_ref="DESIGN.md section 6 (C06)",
    note="Shape bounds up to 2x2x(3t)x(3t); index tensors 1-d and adjacent; last_dim_is_batch not exercised; a (kernel, pattern) whose eager evaluation raises is "
         "skipped and counted. The model is of the pinned code: classes repaired since print as MODEL-DRIFT predictions that the replay no longer confirms.",
    technique="TLA+ exact-function model checked by TLC; exhaustive replay into a label stub (exact) and real kernels (metamorphic, 1e-10)")


# ---- round 2: what was added to each check after the second set of seeded changes (appended to the texts above) ----
ROUND2 = {
    "C01": " Round 2: the path lattice also contains each documented test-time accuracy knob tightened alone (eval_cg_tolerance etc.) on CG-sized instances, so a knob that is silently not honoured shows as an accuracy failure.",
    "C02": " Round 2: ExactObjective.tla part history - a machine over live model objects (how each prior was registered: constructor / closure / by name; set, deepcopy, load, pickle) with the invariant that every prior term is evaluated at the current value of the parameter of THIS object; every reachable state is replayed (value and gradients, objective objects made before and after the operations).",
    "C03": " Round 2: the Predict action carries the batch shape of the test inputs (NoStaleShape; a broken variant without the shape guard is rejected) and LoadStateDict ranges over partial dictionaries; GPCacheExt.tla repeats the slot/version-tag construction for ten further stateful families (model list, heteroskedastic noise with its nested noise GP, nearest-neighbour / LMC / independent-multitask strategies, two-layer deep GP, data-driven interpolation grids, GridKernel.update_grid, RFF, spectral mixture), with its own broken and repaired variants, and every history is replayed against a fresh twin.",
    "C04": " Round 2: shared fantasy inputs under the model's own batch dimension are part of the supported triples, and Fantasy.tla part list enumerates IndependentModelList fantasies (member likelihood kinds x noise-list entries incl. None), each member compared with its own conditioning from scratch.",
    "C05": " Round 2: Kernels.tla part args enumerates every optional constructor argument of every kernel family at non-default value classes (neutral arguments must leave the denotation unchanged, formula arguments must change it); exact ArcKernel delta_func and multitask/index/LCM instances; all multi-valued parameters pairwise distinct (DistinctOK).",
    "C06": " Round 2: KernelPure.tla - a heap model of kernel objects (evaluate -> derive by kernel[i] / K[idx] / expand_batch / transpose / repeat / unsqueeze / diagonal -> evaluate the ORIGINAL again; invariants Pure and DerivedAgree, seven mutant models must be rejected) and the diag layout of the derivative kernels with pairwise distinct ARD lengthscales (LayoutOK), both replayed on label stubs and real kernels.",
    "C07": " Round 2: the growth machine ranges over how observations are added (set_train_data, fantasies with every likelihood kind incl. learned additional noise, fantasies of fantasies, model lists) with the monotonicity invariants at every step, and the PSD lattice over every discrete kernel argument x input dimension x dense geometries.",
    "C08": " Round 2: Batch.tla models a kernel as a tree of nodes with own / effective / parameter batch shapes (composites that inherit their batch shape), Shapes.tla makes every equality between a batch-axis size and a data-axis size a class (CoincidencesCovered), and a model-list family enumerates heterogeneous member kinds incl. fantasies with noise lists (ListIndependent).",
    "C09": " Round 2: Structured.tla part sgpr carries a noise model (homoskedastic, fixed, fixed + additional, heteroskedastic) with the collapsed bound stated as the ELBO at the optimal q(u) (SgprElbo), and part gridsm is a state machine of grid kernels (evaluate, update_grid, dynamic re-lay, load_state_dict, train/eval) whose every evaluation must use K_UU of the CURRENT grid; all histories replayed against dense W K_UU W^T and a fresh kernel.",
    "C10": " Round 2: the scalar alphabet of MVNOps.tla contains the algebraically special values (1, -1, 0, near-zero) in every spelling (int, float, bool, numpy, 0-dim tensor), radd/rmul and a 'factor already computed' history; log_prob of every operation result is compared unconditionally.",
    "C11": " Round 2: MTCtor.tla states the denotation of from_batch_mvn / from_repeated_mvn / from_independent_mvns by explicit index arithmetic for batch rank <= 4 and every task_dim (both spellings, nearest invalid values), KeepsBatchOrder; replayed with labelled sources per batch member.",
    "C12": " Round 2: LikelihoodList noise lists range over None entries at every position (a None entry must not see another member's noise).",
    "C13": " Round 2: Quadrature.tla part rediff (with BackwardOps.tla): forward -> backward^k through one graph, every pass must deliver phi/Phi and leave the saved context untouched; replayed for log_normal_cdf over the whole range and for the gradients of BernoulliLikelihood.expected_log_prob.",
    "C14": " Round 2: the multitask wrappers range over every position of latent_dim / task_dim / mean_var_batch_dim with equal and unequal sizes, and kl_divergence is compared in value and shape.",
    "C15": " Round 2: forwarded keywords (noise=) and FixedNoise likelihoods with minibatches B < N, B = N (stored order, permuted, resampled), B > N; a history machine over the position of the raw variational parameters (fresh, stepped, dense-loaded) with the objective checked at the q(u) the model reports, for all five variational distribution classes.",
    "C16": " Round 2: observed targets that equal the fill value are a value class (spec instances and replay).",
    "C17": " Round 2: Constraint.tla has actions that change the bounds of an existing constraint object (load_state_dict, buffer assignment, dtype conversions, deepcopy) and every invariant refers to the bounds currently reported (ContractNow, LoadRestores, BoundsFollow).",
    "C18": " Round 2: checkpoints from every save point (incl. before the first call) are loaded into a model that has already been used; the train/eval flags of all sub-modules are observables.",
    "C19": " Round 2: KernelCalls.tla enumerates the call configurations that select between the hand-written and the generic kernel path (diag, last_dim_is_batch, x1_eq_x2, requires_grad, shared / ARD / batched lengthscale, size coincidences) with gradients of every parameter against autograd of the formula; BackwardOps.tla is a machine forward -> backward^k (retain_graph, accumulation, jacobian rows) with BWPure / BWDerivOK for all six hand-written Functions.",
    "C20": "",
}
for _k, _v in ROUND2.items():
    CLAIMED[_k]["text"] += _v

# ---- round 3 addenda ----
ROUND3 = {
    "C01": " Round 3: the lattice crosses the path selectors with switch settings that must not change the meaning (debug off, memory_efficient, trace_mode, ...: SwitchIrrelevant); part history models what survives a prediction (the kernel's active_dims field, lazily evaluated tensors and their call-time keywords, the cached train-train block) over prediction / train-eval / set_train_data steps with invariant OnePrior, replayed on kernels with active_dims and keyword-consuming kernels; every cell makes two predictions.",
    "C02": " Round 3: the batch shape of the target against the batch shape of the distribution is a dimension (equal, extra leading dims, suffixes, unit dims; batched or shared inputs) with DivisorOK (the divisor is n x tasks for every pair of shapes), for the MLL and the LOO objective.",
    "C03": " Round 3: skip_posterior_variances is used for all predictions of a fifth of the histories (its code path keeps its own state).",
    "C04": " Round 3: input-dependent prior means, KISS-GP fantasies of fantasies, and a family-tree machine (GetFantasy(of) / Predict(k) in any interleaving, DataFixed) whose maximal histories are replayed: every model of the tree, whenever evaluated, equals a fresh model on its data.",
    "C05": " Round 3: part dims - every argument that names a dimension (dim of sum_interaction_terms, last_dim_is_batch, the structure kernels) at every valid position with pairwise distinct axis sizes (DimsOK), against the explicit sum over index subsets.",
    "C06": " Round 3: the data of the relation replay is a lattice of geometries (rows as points with identity and class: origin, unit, lattice, generic; coincident rows, rows shared by x1 and x2, x2 ending with the rows of x1: GeoCover) realised per kernel by the special points of its domain.",
    "C08": " Round 3: every objective class of gpytorch.mlls that accepts batched models is in the replica lattice with batch ranks 1 and 2, element b compared in value with the non-batched replica.",
    "C09": " Round 3: part access (every structured kernel under every access form - dense, diag=True, lazy diagonal, variance - x train/eval x the settings that change its meaning: AccessOK) and part gridpred (one prediction of a data-driven-grid KISS-GP as strategy creation, test/test block, test/train block, reference, with the test extent in every position relative to the training extent: GpOK).",
    "C11": " Round 3: the index alphabet contains every pairing of index kinds for the two event dimensions (int incl. negative x tensor, ...: ASSUME PairingsCovered) behind every batch item, and batch index tensors.",
    "C13": " Round 3: part params - every learnable parameter of the one-dimensional likelihoods over its whole valid range in decades (1e-6..1e2), scalar / broadcast / mixed-magnitude batches, set through setter or initialize; the conditional's parameters are read back from the returned distribution (ParamsNoFloorOK).",
    "C14": " Round 3: part paths (settings that select another branch of a strategy's forward: skip_posterior_variances, fast_pred_var, CG, trace_mode, fast_computations off, eager kernels) and part ehist (an evaluation-mode protocol machine: predict under the path, parameter change by optimiser step or load, predict again; EObservesCurrent, five broken variants rejected).",
    "C15": " Round 3: part tree - added loss terms and priors registered over a module tree (equal and different local names in different sub-modules, one object in several slots, None terms, modules reachable along two paths) crossed with every objective class (TreeOK, SharingNeutral), plus real latent-variable components.",
    "C16": " Round 3: two batch dimensions (the mask is the union over all batch dimensions).",
    "C18": " Round 3: carrier kind closure (function objects that deepcopy / pickle do not copy must read the module they are called with), a constructor-prior family, a divergence step after every round trip (the restored model is independent of and equivalent to the original) and a closure sweep over every class with *_prior arguments.",
    "C19": " Round 3: requires_grad of every input of every hand-written Function is a dimension (every non-empty subset; exactly one of two different kernel inputs): each input that requires grad is delivered the full derivative or the Function refuses loudly (BWNeedsOK, KCWants).",
    "C20": " Round 3: a block may ask for the value that is also the documented default (argument alphabet contains d0).",
}
for _k, _v in ROUND3.items():
    CLAIMED[_k]["text"] += _v

# ---- round 4 addenda ----
ROUND4 = {
    "C01": " Round 4: part noise - which noise 'the observation noise' is (homoskedastic / fixed / fixed + learned / multitask x call-time noise= x size: DocNoise, NoiseOK, two broken transcriptions rejected), S and S* of every case built by hand; the history part takes a load_state_dict step.",
    "C02": " Round 4: part zoo - noise structure of the likelihood x keywords forwarded through mll(output, target, *params, **kwargs) (DefNoise / CodeNoise: ZooNoiseOK) and every library class constructed with *_prior arguments, prior terms from the public properties by name with pairwise distinct values (ZooPriorsOK; three slip models rejected).",
    "C04": " Round 4: call-time keywords handed through get_fantasy_model(X, y, **kw) with a keyword-consuming kernel on every batch triple.",
    "C05": " Round 4: part rel - how x1 and x2 relate as tensor objects (same object, clone, views of one storage with other strides / offsets, transposed, expanded, non-contiguous: 14 relations, RelOK) for every kernel family, through direct calls and through lazy slicing.",
    "C06": " Round 4: a zoo table in the spec (ZooDiagCover: every composite / multi-output structure has a member whose diagonal varies over the points) and an environment dimension (mode x sgpr_diagonal_correction x use_toeplitz: EnvCover) under which every relation is replayed.",
    "C07": " Round 4: part noise (the noise a likelihood actually adds - marginal minus latent covariance, variance of p(y|f) - over likelihood family x switches x constraint class x raw-value class: NoiseAtLeastBound) and the computational path as a record of the growth machine (fast_pred_var x lazy/eager test covariance x CG/Cholesky x detach, small problems forced onto the large-problem branches).",
    "C08": " Round 4: family nan - NaN policy x per-element patterns of missing targets (classes none / same / one_clean / different, every placement of the batch shape): NanSitesAligned, NanNoCrossTalk (non-interference between batch elements under fill), NanMaskIsUnion.",
    "C10": " Round 4: MVNReads.tla - a state machine of observation histories on one distribution object (11 reads, 5 derivations) with invariant ReadsPure (every observation is a function of the constructed (mean, K); caller tensors, stored covariance and cached factor unchanged) over representations incl. every kind of root (lower / upper / symmetric / rotated square, wide, narrow) x variance classes around settings.min_variance; two what-if variants rejected.",
    "C13": " Round 4: the constraint class of every likelihood parameter is a dimension of part params (ParamsThroughConstraintOK), and part condf checks log_prob of every conditional the library builds and its gradient over |f| = 1e-6..1e3 (CondNoFloorOK).",
    "C14": " Round 4: part jit (jitter_val classes; every site uses the strategy's effective jitter: JitSame) and a LoadLegacy action in ehist (a checkpoint without updated_strategy holding an unwhitened q(u), converted once at the next call: LegacyOK in exact rationals).",
    "C16": " Round 4: part datahist - set_train_data(targets=) and get_fantasy_model between predictions under any policy, with missing entries in old and new targets (ServedCurrent; two broken variants rejected).",
    "C17": " Round 4: ConstraintPriors.tla HSpec - the history of a prior object (attribute assignment, load through the prior / through the owning module, deepcopy, dtype conversion) with HAgree: log_prob is the documented density at the hyper-parameters the object reports.",
    "C18": " Round 4: a data-driven interpolation grid family, a save point after a history that moves data-dependent state, constraint bounds of the fresh construction differing in width.",
    "C20": " Round 4: action LibOp (library code entering a block inside the user's blocks; re-entering one context object built at import is rejected: LibOpIsInvisible), a sweep of real library operations inside user blocks of every setting, and a pristine cross-setting pass (one fresh process per outer setting, both the default and a non-default value).",
}
for _k, _v in ROUND4.items():
    CLAIMED[_k]["text"] += _v

ROUND5 = {
    "C03": " Round 5: every fantasy model created in a history is observed once more at the end of the history and compared with a model built from the source's state at its creation (an object of its own, whatever was done to the source since).",
    "C04": " Round 5: action Refit(k) in the family-tree machine (new hyperparameter values for model k alone: HyperOwn; the variant in which a fantasy follows its source's later values is rejected), every model of the tree compared with a fresh model holding the values IT was given.",
    "C06": " Round 5: action Diag12(r) - the relation between x1 and x2 of a diagonal request (same object / equal clone / other rows / batch-broadcast) x request form (lazy, eager, .diagonal(), forward) on the stub and every zoo kernel (DiagRelCover, DiagRelDiscriminates; the x1 = x2 shortcut is rejected).",
    "C07": " Round 5: assemblies of a joint covariance - the joint over [x1; x2] put together from separately requested blocks, for equal and unequal block sizes, is THE Gram matrix of the stacked points (AssemblyOK: only equal block sizes expose a same-by-shape shortcut) and symmetric PSD for every kernel cell of the lattice. Round 6: the optional noise_indices argument of HeteroskedasticNoise is a dimension of the noise cells (single-output noise model; output 0 / output 1 of a two-output noise model as the noise level).",
    "C12": " Round 5: likelihood batch shapes with a non-leading unit dimension in the quick lattice. Round 6: the form of an assignment - task_noises = v with v a float, a 0-d tensor, t, 1 x t, b x 1, b x t, for batch sizes equal to and different from the number of tasks; the documented value is the ASSIGNED value broadcast to b x t, compared with the getter and with the noise added to an interleaved distribution; the same for the global noise (noise = v, v a float / 0-d / 1 / b x 1).",
    "C13": " Round 5: part bigrules - rule sizes 48..128 given by constructor / setting / likelihood, float64 and float32, mean / sd cells, degree classes up to 2n-1 (BigRulesOK, BigNodesOK, BigCountOK; a rule keeping fewer nodes than requested is rejected), light replay against exact Gaussian moments.",
    "C14": " Round 5: part qu - class / conditioning of q(u) (near-prior, diagonal, dense, ill-conditioned) x number of inducing points below / above the Lanczos cap for every strategy x distribution (QuConverges, QuCover; the precision solve capped by the Lanczos setting is rejected), replayed at tight solver settings.",
    "C18": " Round 5: state_dict cells name their failure mode (raises-on-load / carrier missing from the state_dict / loads silently but differs), carrier kind npbuf (non-persistent buffer) and lazily registered persistent buffers with receiver histories fresh / called / used, a carrier inventory per cell, a mean-only observable, LoadDropsCaches. Round 6: deep-kernel families (learned feature map + the library's ScaleToBounds, whose running input range lives in buffers rewritten by training-mode calls and read in evaluation mode; with a dense kernel and with KISS-GP on the scaled features).",
    "C16": " Round 5: part layout - the covariance order of a multitask distribution (interleaved / task by task) x batch rank under mask (LayoutPaired: every selected mean entry is paired with the variance of the same (point, task) cell; recognising a task-major distribution by the rank of its mean is rejected), replayed on hand-built distributions with per-task noises.",
    "C19": " Round 5: the geometry of the inputs is a dimension of the call lattice (rows shared between two different tensors, r = 0 exactly, incl. diag=True cross-covariances; far-offset inputs with more than 25 rows on a side: KCGeomOK, KCCentredOK).",
    "C20": " Round 6: the library-operation sweep constructs every kernel class in one settings context and uses it in another (inside user blocks; objects built inside a block used after it) for dense / diagonal / forward / cross requests. Round 5: the recorded-trace validation caps the number of replay traces per TLC run (stride sample) so that it finishes under load.",
}
for _k, _v in ROUND5.items():
    CLAIMED[_k]["text"] += _v

PENDING = "check not built yet (build in progress; see DESIGN.md section 11)"
NOT_APPLICABLE = {}

SOURCE_COMMITS = subprocess.run(["git", "-C", "/repo", "log", "--format=%h %s", "66db6d9..HEAD"], capture_output=True, text=True).stdout.strip().splitlines()

m = {
    "version": 1,
    "setup_cmd": "cd /verif && ./check --selftest",
    "hooks": {
        "guard": "GPYTORCH_VERIF_TRACE",
        "enable": "environment variable GPYTORCH_VERIF_TRACE=mem (events kept in gpytorch._verif.events) or =<file> (ndjson appended); "
                  "pure-Python editable install, nothing to rebuild; ./check sets it itself",
        "baseline_off_cmd": "cd /repo && env -u GPYTORCH_VERIF_TRACE /venv/bin/python -m pytest -ra -q -p no:cacheprovider --timeout=900 --continue-on-collection-errors",
        "source_commits": [c.split()[0] for c in SOURCE_COMMITS if c.split(" ", 1)[1].startswith("verif:")],
        "add_only": True,
    },
    "engines": [
        {"name": "tlc", "path": "/verif/harness/tlc.py", "serves_properties": sorted(CLAIMED), "kind_free_text": "TLC 1.8 explicit-state model checker on spec/*.tla (exhaustive configs, generation configs with a history variable, trace specs)"},
        {"name": "replay", "path": "/verif/harness/core.py", "serves_properties": sorted(CLAIMED), "kind_free_text": "replay of TLC-generated behaviours / cases into /repo's working tree (16 forked workers, float64) with projection compare after each action"},
        {"name": "tracecheck", "path": "/verif/harness/tracecheck.py", "serves_properties": sorted(CLAIMED), "kind_free_text": "validation of hook-event traces recorded from replays and from the repository's tests against *Trace.tla"},
    ],
    "checks": [],
    "not_applicable": [],
    "notes": "Model-based verification with explicit TLA+ specs (spec/*.tla) checked by TLC and bound to /repo by replay of spec behaviours and TLC validation of recorded traces. "
             "Exit 0 = held (KNOWN-FINDING lines for entries of known_findings.json), 1 = VIOLATION, 2 = machinery failure / vacuity. See DESIGN.md.",
}
for p in PROPS:
    if p in CLAIMED:
        c = CLAIMED[p]
        m["checks"].append({
            "property_id": p,
            "quick_cmd": "cd /verif && ./check %s --tier quick" % p,
            "thorough_cmd": "cd /verif && ./check %s --tier thorough" % p,
            "evidence_file": "/verif/evidence/%s.json" % p,
            "replay_cmd_template": "cd /verif && ./check %s --replay {path}" % p,
            "engine": "tlc+replay" + ("+tracecheck" if "trace" in c["technique"] else ""),
            "level_claimed": {"category": c["category"], "text": c["text"], "design_ref": c["design_ref"]},
            "level_note": c["note"],
            "technique": c["technique"],
        })
    else:
        m["not_applicable"].append({"property_id": p, "reason": NOT_APPLICABLE.get(p, PENDING)})
json.dump(m, open(os.path.join(V, "MANIFEST.json"), "w"), indent=1)
import jsonschema
jsonschema.validate(m, json.load(open("/root/.vp/MANIFEST.schema.json")))
print("MANIFEST ok: claimed", sorted(CLAIMED), "hook commits", m["hooks"]["source_commits"])
