"""Record executions of the repository's own tests with the hooks on (one ndjson trace per pytest process)."""
import json
import os
import subprocess
import sys

from . import core, tlc

REPO = os.environ.get("VERIF_REPO", "/repo")


def record_tests(paths, name, timeout=1500, k=None):
    """Run pytest on `paths` (relative to /repo) with GPYTORCH_VERIF_TRACE pointing at a fresh file.
    Returns (events, summary line).  Test failures do not matter here (the suite is not the oracle); a run that
    produces no events is a machinery failure."""
    work = os.path.join(tlc.BUILD, name)
    os.makedirs(work, exist_ok=True)
    out = os.path.join(work, "events.ndjson")
    if os.path.exists(out):
        os.remove(out)
    env = dict(os.environ)
    env.update(GPYTORCH_VERIF_TRACE=out, PYTHONPATH=core.VERIF + ":" + REPO, PYTHONDONTWRITEBYTECODE="1")
    cmd = ["/venv/bin/python", "-W", "ignore", "-m", "pytest", "-q", "-x", "--no-header", "-p", "no:cacheprovider", "-p", "harness.lo_wrap"]
    if k:
        cmd += ["-k", k]
    cmd += list(paths)
    try:
        p = subprocess.run(cmd, cwd=REPO, env=env, stdout=subprocess.PIPE, stderr=subprocess.STDOUT, text=True, timeout=timeout)
    except subprocess.TimeoutExpired:
        raise core.Machinery("recording repository tests timed out: %s" % (paths,))
    tail = [ln for ln in p.stdout.splitlines() if ln.strip()][-1:] or [""]
    events = []
    if os.path.exists(out):
        with open(out) as f:
            for ln in f:
                events.append(json.loads(ln))
    if not events:
        raise core.Machinery("no events recorded from repository tests %s (hooks missing?): %s" % (paths, tail[0]))
    return events, tail[0]
