"""./check --selftest : the machinery's own sanity checks (also the MANIFEST setup_cmd).

(1) tools are present and the specs parse; (2) the binding bites: corrupt a recorded trace / an expected
observation and require rejection."""
import copy
import os
import shutil
import sys

from . import core, tlc, tracecheck


def run():
    ok = True

    def report(name, good, info=""):
        nonlocal ok
        print("selftest %-58s %s %s" % (name, "ok" if good else "FAILED", info))
        ok = ok and good

    # specs parse (fatal only for the modules of checks that MANIFEST.json claims; others may be work in progress)
    import json
    import re
    with open(os.path.join(core.VERIF, "MANIFEST.json")) as f:
        claimed = [c["property_id"].lower() for c in json.load(f)["checks"]]
    needed = {"Rational", "LinAlg", "PyIndex"}
    for pid in claimed:
        for fn in os.listdir(os.path.join(core.VERIF, "checks")):
            if fn.startswith(pid) and fn.endswith(".py"):
                src = open(os.path.join(core.VERIF, "checks", fn)).read()
                needed.update(re.findall(r"EXTENDS (\w+)", src))
                needed.update(m for m in re.findall(r'"(\w+)"', src) if os.path.exists(os.path.join(tlc.SPEC, m + ".tla")))
    for fn in sorted(os.listdir(tlc.SPEC)):
        if fn.endswith(".tla"):
            good, out = tlc.sany(fn[:-4])
            if fn[:-4] in needed:
                report("sany " + fn, good, "" if good else out[-400:])
            else:
                print("selftest %-58s %s" % ("sany " + fn + " (not yet claimed)", "ok" if good else "does not parse (ignored)"))
    # settings trace: a correct trace is accepted, a corrupted one is rejected with the clause named
    core.setup_torch()
    import harness.lo_wrap  # noqa
    from gpytorch import _verif, settings
    if not _verif.ON:
        report("hooks enabled (GPYTORCH_VERIF_TRACE)", False)
        return 2
    del _verif.events[:]
    with settings.fast_pred_var(True, num_probe_vectors=4):
        with settings.min_variance(double_value=0.5):
            try:
                with settings.debug(False), settings.max_cholesky_size(3):
                    raise KeyError("x")
            except KeyError:
                pass
    good_tr = [e for e in _verif.events if e["ev"].startswith("s_")]
    bad_tr = copy.deepcopy(good_tr)
    for e in bad_tr:
        if e["ev"] == "s_exit" and e["cls"].endswith("fast_pred_var"):
            e["after"]["probes"] = "4"
    drop_tr = [e for e in copy.deepcopy(good_tr)]
    for e in drop_tr:
        if e["ev"] == "s_enter" and e["cls"].endswith("min_variance"):
            e["after"]["d"] = "1e-10"
    res, v = tracecheck.validate("SettingsTrace", "SettingsTrace.cfg", [good_tr, bad_tr, drop_tr], "selftest/settings", workers=2)
    report("SettingsTrace accepts a recorded execution", v[0]["bad"] == [])
    report("SettingsTrace rejects a corrupted exit (RestoredOnExit)", [b["clause"] for b in v[1]["bad"]] == ["RestoredOnExit"])
    report("SettingsTrace rejects an ineffective enter (EnterSetsRequested)", "EnterSetsRequested" in [b["clause"] for b in v[2]["bad"]])
    # cache trace: a stale hit after load_state_dict is rejected, its prefix and a cleared variant are accepted
    ev = lambda e, **k: dict(ev=e, owner=k.get("owner", 1), cls=k.get("cls", "X"), name=k.get("name", "mean_cache"))
    stale = [ev("c_fill"), ev("c_hit"), ev("m_load_state_dict"), ev("c_hit")]
    cleared = [ev("c_fill"), ev("c_hit"), ev("m_load_state_dict"), ev("c_clear", name="*"), ev("c_fill"), ev("c_hit")]
    psstale = [ev("ps_create", name=""), ev("params_changed"), ev("ps_reuse", name="")]
    res, v = tracecheck.validate("CacheTrace", "CacheTrace.cfg", [stale, stale[:3], cleared, psstale], "selftest/cache", workers=2)
    report("CacheTrace rejects a hit after load_state_dict (NoStaleHit)", [b["clause"] for b in v[0]["bad"]] == ["NoStaleHit"])
    report("CacheTrace accepts the prefix and the cleared variant", v[1]["bad"] == [] and v[2]["bad"] == [])
    report("CacheTrace rejects a reused strategy after a parameter change", [b["clause"] for b in v[3]["bad"]] == ["NoStaleStrategy"])
    shutil.rmtree(os.path.join(tlc.BUILD, "selftest"), ignore_errors=True)
    print("selftest", "PASSED" if ok else "FAILED")
    return 0 if ok else 2
