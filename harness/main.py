"""CLI: ./check Cxx --tier quick|thorough [--replay file]"""
import argparse
import importlib
import json
import os
import shutil
import sys
import traceback

from . import core, tlc


def main():
    ap = argparse.ArgumentParser()
    ap.add_argument("pid", nargs="?")
    ap.add_argument("--tier", default=os.environ.get("VERIF_TIER", "quick"), choices=["quick", "thorough"])
    ap.add_argument("--replay")
    ap.add_argument("--selftest", action="store_true")
    ap.add_argument("--keep-build", action="store_true")
    args = ap.parse_args()
    seed = int(os.environ.get("VERIF_SEED", "0") or 0)
    if args.selftest:
        from . import selftest
        sys.exit(selftest.run())
    if not args.pid:
        ap.error("property id required")
    pid = args.pid.upper()
    try:
        mod = importlib.import_module("checks.%s" % pid.lower())
    except ModuleNotFoundError:
        print("MACHINERY-FAILURE property=%s no check module" % pid)
        sys.exit(2)
    rc = 2
    try:
        if args.replay:
            with open(args.replay) as f:
                rep = json.load(f)
            rc = mod.replay(rep)
        else:
            ck = core.Check(pid, args.tier, seed, mod.LEVEL)
            mod.run(ck)
            rc = ck.finish()
    except (core.Machinery, tlc.TLCError) as e:
        print("MACHINERY-FAILURE property=%s %s" % (pid, e))
        rc = 2
    except Exception as e:
        traceback.print_exc()
        fr = core.library_frame(e)
        if fr is not None and not args.replay:
            # the implementation raised inside the (unguarded) set-up of the check, which succeeds on the unchanged tree
            os.makedirs(core.REPLAYS, exist_ok=True)
            path = os.path.join(core.REPLAYS, "%s-setup-%s.json" % (pid, core.digest(traceback.format_exc())))
            with open(path, "w") as f:
                json.dump(dict(property=pid, signature="%s/library-raised-in-setup/%s:%s" % (pid, os.path.basename(fr.filename), fr.name),
                               detail=traceback.format_exc()[-3000:], case=dict(setup=True)), f, indent=1)
            print("VIOLATION property=%s replay=%s" % (pid, path))
            print("  cell=%s/library-raised-in-setup :: %s: %s at %s:%d" % (pid, type(e).__name__, str(e)[:300], fr.filename, fr.lineno))
            rc = 1
        else:
            print("MACHINERY-FAILURE property=%s unexpected exception in harness" % pid)
            rc = 2
    finally:
        if not args.keep_build and not os.environ.get("VERIF_KEEP_BUILD"):
            shutil.rmtree(os.path.join(tlc.BUILD, pid), ignore_errors=True)
    sys.stdout.flush()
    sys.exit(rc)


if __name__ == "__main__":
    main()
