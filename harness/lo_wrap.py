"""Run-time wrappers that make linear_operator's settings base classes (site-packages, never edited) emit the
same s_construct / s_enter / s_exit events as the hooks in gpytorch/settings.py.  Importable as a pytest plugin
(`-p harness.lo_wrap`) so that recorded repository tests include them."""
import functools
import os

if os.environ.get("GPYTORCH_VERIF_TRACE"):
    import linear_operator.settings as los
    from gpytorch import _verif

    def _wrap(cls):
        if getattr(cls, "_verif_wrapped", False):
            return
        oi, oe, ox = cls.__init__, cls.__enter__, cls.__exit__

        @functools.wraps(oi)
        def init(self, *a, **k):
            oi(self, *a, **k)
            _verif.s_construct(self)

        @functools.wraps(oe)
        def enter(self, *a, **k):
            t = _verif.s_begin(self)
            r = oe(self, *a, **k)
            _verif.s_end(self, t, "s_enter")
            return r

        @functools.wraps(ox)
        def exit_(self, *a, **k):
            t = _verif.s_begin(self)
            r = ox(self, *a, **k)
            _verif.s_end(self, t, "s_exit")
            return r

        cls.__init__, cls.__enter__, cls.__exit__ = init, enter, exit_
        cls._verif_wrapped = True

    for _c in (los._feature_flag, los._value_context, los._dtype_value_context):
        _wrap(_c)


    # optimizer steps change parameters in place: a global version change for CacheTrace.tla
    import torch

    def _wrap_opt(cls):
        if getattr(cls, "_verif_wrapped", False):
            return
        ostep = cls.step

        @functools.wraps(ostep)
        def step(self, *a, **k):
            r = ostep(self, *a, **k)
            _verif.emit("params_changed", cls=type(self).__name__)
            return r
        cls.step = step
        cls._verif_wrapped = True

    for _o in (torch.optim.SGD, torch.optim.Adam, torch.optim.LBFGS):
        _wrap_opt(_o)


def pytest_runtest_setup(item):
    """pytest plugin hook: mark test boundaries in the recorded trace"""
    if os.environ.get("GPYTORCH_VERIF_TRACE"):
        from gpytorch import _verif as v
        v.emit("test_begin", name=item.nodeid)
