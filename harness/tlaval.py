"""Parser for TLA+ values as printed by TLC (state dumps, counterexamples, -simulate files).

Mapping to Python:
  integers -> int, "str" -> str, TRUE/FALSE -> bool, model values / identifiers -> Sym (a str subclass),
  {a, b} -> frozenset (elements must be hashable: lists become tuples inside sets),
  <<a, b>> -> tuple, [k |-> v] -> dict, (k :> v @@ ...) -> dict (keys as parsed), a..b -> tuple(range).
A function whose domain is 1..n is printed by TLC as a sequence, so it arrives as a tuple.
"""
import re

_TOK = re.compile(
    r'\s*(?:(?P<int>-?\d+)|"(?P<str>(?:[^"\\]|\\.)*)"|(?P<sym>[A-Za-z_][A-Za-z0-9_!]*)'
    r'|(?P<op><<|>>|\|->|:>|@@|\.\.|/\\|[\[\]{}(),=]))'
)


class Sym(str):
    """A bare identifier (model value)."""

    def __repr__(self):
        return "Sym(%s)" % str.__repr__(self)


class TLAParseError(ValueError):
    pass


def tokenize(text):
    pos, n, out = 0, len(text), []
    while pos < n:
        m = _TOK.match(text, pos)
        if not m:
            if text[pos:].strip() == "":
                break
            raise TLAParseError("cannot tokenize at %d: %r" % (pos, text[pos:pos + 40]))
        pos = m.end()
        if m.group("int") is not None:
            out.append(("int", int(m.group("int"))))
        elif m.group("str") is not None:
            s = m.group("str")
            if "\\" in s:
                s = s.replace('\\"', '"').replace("\\n", "\n").replace("\\t", "\t").replace("\\\\", "\\")
            out.append(("str", s))
        elif m.group("sym") is not None:
            out.append(("sym", m.group("sym")))
        else:
            out.append(("op", m.group("op")))
    return out


def _hashable(v):
    if isinstance(v, dict):
        return tuple(sorted((_hashable(k), _hashable(x)) for k, x in v.items()))
    if isinstance(v, (list, tuple)):
        return tuple(_hashable(x) for x in v)
    if isinstance(v, (set, frozenset)):
        return frozenset(_hashable(x) for x in v)
    return v


class _P:
    def __init__(self, toks):
        self.t = toks
        self.i = 0

    def peek(self):
        return self.t[self.i] if self.i < len(self.t) else (None, None)

    def eat(self, kind=None, val=None):
        k, v = self.peek()
        if (kind is not None and k != kind) or (val is not None and v != val):
            raise TLAParseError("expected %s %s, got %s %r at token %d" % (kind, val, k, v, self.i))
        self.i += 1
        return v

    def value(self):
        k, v = self.peek()
        if k == "int":
            self.i += 1
            if self.peek() == ("op", ".."):
                self.i += 1
                hi = self.eat("int")
                return tuple(range(v, hi + 1))
            return v
        if k == "str":
            self.i += 1
            return v
        if k == "sym":
            self.i += 1
            if v == "TRUE":
                return True
            if v == "FALSE":
                return False
            return Sym(v)
        if k == "op":
            if v == "<<":
                self.i += 1
                items = []
                while self.peek() != ("op", ">>"):
                    items.append(self.value())
                    if self.peek() == ("op", ","):
                        self.i += 1
                self.eat("op", ">>")
                return tuple(items)
            if v == "{":
                self.i += 1
                items = []
                while self.peek() != ("op", "}"):
                    items.append(self.value())
                    if self.peek() == ("op", ","):
                        self.i += 1
                self.eat("op", "}")
                return frozenset(_hashable(x) for x in items)
            if v == "[":
                self.i += 1
                d = {}
                while self.peek() != ("op", "]"):
                    key = self.eat("sym")
                    self.eat("op", "|->")
                    d[key] = self.value()
                    if self.peek() == ("op", ","):
                        self.i += 1
                self.eat("op", "]")
                return d
            if v == "(":
                self.i += 1
                d = {}
                while True:
                    key = self.value()
                    self.eat("op", ":>")
                    d[_hashable(key)] = self.value()
                    if self.peek() == ("op", "@@"):
                        self.i += 1
                        continue
                    break
                self.eat("op", ")")
                return d
        raise TLAParseError("unexpected token %s %r at %d" % (k, v, self.i))


def parse_value(text):
    p = _P(tokenize(text))
    v = p.value()
    if p.i != len(p.t):
        raise TLAParseError("trailing tokens after value: %r" % (p.t[p.i:p.i + 5],))
    return v


def parse_state(text):
    """Parse '/\\ a = v\n/\\ b = w' (or a single 'a = v') into {a: v, b: w}."""
    p = _P(tokenize(text))
    out = {}
    while p.i < len(p.t):
        if p.peek() == ("op", "/\\"):
            p.i += 1
        name = p.eat("sym")
        p.eat("op", "=")
        out[name] = p.value()
    return out


_STATE_HDR = re.compile(r"^State (\d+):\s*(<.*>)?\s*$", re.M)


def parse_dump(text):
    """Parse the body of a TLC `-dump` file or a counterexample listing into a list of
    (header_action_or_None, state_dict)."""
    out = []
    hdrs = list(_STATE_HDR.finditer(text))
    for j, m in enumerate(hdrs):
        end = hdrs[j + 1].start() if j + 1 < len(hdrs) else len(text)
        body = text[m.end():end]
        # a counterexample listing is followed by statistics lines; cut at the first blank line
        # after the conjunction list
        cut = re.search(r"\n\s*\n", body)
        if cut:
            body = body[:cut.start()]
        act = None
        if m.group(2):
            am = re.match(r"<\s*([A-Za-z_][A-Za-z0-9_]*)", m.group(2))
            act = am.group(1) if am else m.group(2)
        out.append((act, parse_state(body)))
    return out


def to_json(v):
    """Convert a parsed value into something json.dumps accepts (sets -> sorted lists)."""
    if isinstance(v, dict):
        return {(k if isinstance(k, str) else repr(k)): to_json(x) for k, x in v.items()}
    if isinstance(v, (tuple, list)):
        return [to_json(x) for x in v]
    if isinstance(v, (set, frozenset)):
        return sorted((to_json(x) for x in v), key=repr)
    if isinstance(v, Sym):
        return str(v)
    return v


if __name__ == "__main__":
    s = '''/\\ h = << [ d |-> 1, a |-> "A", f |-> (1 :> "u" @@ 3 :> {1, 2}), s |-> {}, neg |-> -1, b |-> TRUE, t |-> <<>> ] >>
/\\ x = 2'''
    print(parse_state(s))
    print(parse_value("[a |-> 1..3, b |-> None]"))
