"""Check context: evidence accounting, findings, verdict lines, parallel replay."""
import fnmatch
import hashlib
import json
import multiprocessing as mp
import os
import sys
import time
import traceback

VERIF = os.path.dirname(os.path.dirname(os.path.abspath(__file__)))
OUT = os.environ.get("VERIF_OUT", VERIF)  # development only: write evidence/replays/build somewhere else
EVIDENCE = os.path.join(OUT, "evidence")
REPLAYS = os.path.join(OUT, "replays")
FINDINGS = os.path.join(VERIF, "known_findings.json")
NPROC = int(os.environ.get("VERIF_NPROC", "16"))


class Machinery(Exception):
    """Raised for failures of the verification machinery itself (exit 2)."""


def digest(obj):
    return hashlib.sha1(json.dumps(obj, sort_keys=True, default=repr).encode()).hexdigest()[:12]


def load_findings():
    if not os.path.exists(FINDINGS):
        return []
    with open(FINDINGS) as f:
        return json.load(f)["findings"]


class Check:
    def __init__(self, pid, tier, seed, level):
        self.pid, self.tier, self.seed, self.level = pid, tier, seed, level
        self.t0 = time.time()
        self.states = 0
        self.transitions = 0
        self.traces_validated = 0
        self.evaluations = 0
        self._distinct = set()
        self.samples = []
        self.violations = []  # dict(sig, detail, replay)
        self.known_hit = {}  # signature pattern -> (entry, count, example)
        self.drift = []
        self.assumptions = []
        self.rule = ""
        self.explanation = ""
        self.exhaustive = None
        self.extra = {}
        self.tlc_runs = []
        self.sections = {}
        self._known = [f for f in load_findings() if f.get("property") == pid and f.get("status") == "known"]
        self._vacuity = []
        self._replayed_violation_files = []
        import glob
        for f in glob.glob(os.path.join(REPLAYS, pid + "-*.json")):
            os.remove(f)

    # -- accounting ---------------------------------------------------------------------
    def add_tlc(self, res, label=None):
        self.states += res.distinct
        self.transitions += res.generated
        self.tlc_runs.append(dict(run=label or os.path.basename(res.workdir or "?"), generated=res.generated,
                                  distinct=res.distinct, depth=res.depth, wall_s=round(res.wall_s, 2),
                                  violation=(res.violation or {}).get("name"),
                                  coverage={k: v[1] for k, v in res.coverage.items()}))

    def require_coverage(self, res, actions):
        """Vacuity guard: every named action must have been taken at least once."""
        for a in actions:
            if res.coverage.get(a, (0, 0))[1] == 0:
                self._vacuity.append("TLC run %s never took action %s" % (os.path.basename(res.workdir), a))

    def vacuous(self, msg):
        self._vacuity.append(msg)

    def case(self, key, nontrivial=True, sample=None, n=1):
        """Count one compared case; `key` identifies the abstract case for the distinct count."""
        self.evaluations += n
        if nontrivial:
            self._distinct.add(digest(key))
        if sample is not None and len(self.samples) < 6:
            self.samples.append(sample)

    def section(self, name, **kv):
        d = self.sections.setdefault(name, {})
        for k, v in kv.items():
            if isinstance(v, (int, float)) and isinstance(d.get(k), (int, float)):
                d[k] += v
            else:
                d[k] = v

    # -- verdicts -----------------------------------------------------------------------
    def violation(self, sig, detail, case=None):
        """A property-level failure on the real code for the cell `sig`."""
        for f in self._known:
            pat = f["signature"]
            if sig == pat or (f.get("match") == "glob" and fnmatch.fnmatchcase(sig, pat)):
                ent = self.known_hit.setdefault(pat, dict(entry=f, count=0, example=sig, detail=str(detail)[:300]))
                ent["count"] += 1
                return False
        path = None
        if len(self.violations) < 50:
            os.makedirs(REPLAYS, exist_ok=True)
            path = os.path.join(REPLAYS, "%s-%s.json" % (self.pid, digest([sig, case])))
            with open(path, "w") as f:
                json.dump(dict(property=self.pid, signature=sig, detail=str(detail)[:4000], case=case, seed=self.seed,
                               tier=self.tier), f, indent=1, default=repr)
        self.violations.append(dict(sig=sig, detail=str(detail)[:2000], replay=path))
        return True

    def model_drift(self, what):
        if len(self.drift) < 100:
            self.drift.append(str(what)[:500])

    def absorb(self, results):
        """Results from replay workers: list of dict(key, ok, sig, detail, case, nontrivial, sample, drift)."""
        for r in results:
            if r.get("machinery"):
                raise Machinery(r["machinery"])
            self.case(r.get("key", r.get("sig")), r.get("nontrivial", True), r.get("sample"), r.get("n", 1))
            if r.get("drift"):
                self.model_drift(r["drift"])
            if not r.get("ok", True):
                self.violation(r["sig"], r.get("detail", ""), r.get("case"))

    def finish(self):
        wall = time.time() - self.t0
        cov = dict(evaluations=self.evaluations, distinct_nontrivial=len(self._distinct), rule=self.rule,
                   samples=self.samples[:6] or ["(no samples)"], states=self.states, transitions=self.transitions,
                   traces_validated_against_impl=self.traces_validated, tlc_runs=self.tlc_runs,
                   sections=self.sections, model_drift=self.drift[:20],
                   known_findings_reproduced=[dict(signature=k, count=v["count"], example=v["example"]) for k, v in self.known_hit.items()])
        if self.explanation:
            cov["explanation"] = self.explanation
        if self.exhaustive is not None:
            cov["exhaustive"] = self.exhaustive
        cov.update(self.extra)
        ev = dict(property_id=self.pid, tier=self.tier, seed=self.seed, level=self.level, coverage=cov,
                  assumptions=self.assumptions, wall_s=round(wall, 2), violations=len(self.violations))
        os.makedirs(EVIDENCE, exist_ok=True)
        with open(os.path.join(EVIDENCE, self.pid + ".json"), "w") as f:
            json.dump(ev, f, indent=1, default=repr)
        for d in self.drift[:10]:
            print("MODEL-DRIFT: property=%s %s" % (self.pid, d))
        for pat, v in self.known_hit.items():
            print("KNOWN-FINDING: property=%s %s: %s (%d cell(s), e.g. %s)" % (self.pid, pat, v["entry"].get("what", ""), v["count"], v["example"]))
        if self._vacuity:
            for m in self._vacuity:
                print("VACUOUS: property=%s %s" % (self.pid, m))
            print("MACHINERY-FAILURE property=%s (vacuity guard)" % self.pid)
            return 2
        if self.violations:
            seen = set()
            for v in self.violations:
                if v["replay"] is None:
                    continue
                print("VIOLATION property=%s replay=%s" % (self.pid, v["replay"]))
                if v["sig"] not in seen and len(seen) < int(os.environ.get("VERIF_MAXCELLS", "15")):
                    seen.add(v["sig"])
                    print("  cell=%s :: %s" % (v["sig"], v["detail"][:400].replace("\n", " | ")))
            print("FAIL property=%s violations=%d evaluations=%d wall=%.1fs" % (self.pid, len(self.violations), self.evaluations, wall))
            return 1
        print("PASS property=%s tier=%s evaluations=%d distinct_nontrivial=%d states=%d traces=%d wall=%.1fs" % (
            self.pid, self.tier, self.evaluations, len(self._distinct), self.states, self.traces_validated, wall))
        return 0


# -- parallel replay -----------------------------------------------------------------------

_WORKER_FN = None


def library_frame(exc):
    """innermost traceback frame inside the code under test (gpytorch in the repository, or linear_operator), if any"""
    repo = os.environ.get("VERIF_REPO", "/repo")
    hit = None
    for f in traceback.extract_tb(exc.__traceback__):
        if f.filename.startswith(repo + "/gpytorch") or "/linear_operator/" in f.filename:
            hit = f
    return hit


def _call(arg):
    try:
        return _WORKER_FN(arg)
    except Machinery as e:
        return [dict(machinery=str(e))]
    except Exception as e:
        fr = library_frame(e)
        if fr is not None:
            # the implementation raised where the harness (which passes on the unchanged tree) expects it to work:
            # a conformance failure of the case being replayed, not a harness failure
            where = "%s:%s" % (os.path.basename(fr.filename), fr.name)
            return [dict(key=["library-raised", where, str(arg)[:200]], ok=False, nontrivial=True, sig="library-raised/%s/%s" % (where, type(e).__name__),
                         detail="the library raised %s: %s (at %s line %d) while the harness was preparing or running %s" % (
                             type(e).__name__, str(e)[:300], fr.filename, fr.lineno, str(arg)[:200]), case=dict(arg=arg if _jsonable(arg) else str(arg)[:2000]))]
        return [dict(machinery="worker crashed on %r:\n%s" % (str(arg)[:300], traceback.format_exc()))]


def _jsonable(x):
    try:
        json.dumps(x)
        return True
    except (TypeError, ValueError):
        return False


def pmap(fn, items, procs=None, chunksize=None):
    """Run fn(item) -> list of result dicts over items in forked workers (gpytorch already imported)."""
    global _WORKER_FN
    items = list(items)
    if not items:
        return []
    procs = min(procs or NPROC, len(items))
    _WORKER_FN = fn
    if procs <= 1:
        out = []
        for it in items:
            out.extend(_call(it))
        return out
    ctx = mp.get_context("fork")
    out = []
    with ctx.Pool(procs) as pool:
        cs = chunksize or max(1, min(64, len(items) // (procs * 8)))
        for r in pool.imap_unordered(_call, items, chunksize=cs):
            out.extend(r)
    return out


def setup_torch():
    os.environ.setdefault("OMP_NUM_THREADS", "1")
    os.environ.setdefault("MKL_NUM_THREADS", "1")
    import warnings
    warnings.filterwarnings("ignore")
    import torch
    torch.set_num_threads(1)
    try:
        torch.set_num_interop_threads(1)
    except RuntimeError:
        pass
    return torch


def guarded(fn, *a, **k):
    """Call into the code under test; returns (True, value) or (False, 'ExcType: msg')."""
    try:
        return True, fn(*a, **k)
    except Exception as e:  # noqa
        return False, "%s: %s" % (type(e).__name__, str(e)[:300])


def close(a, b, rtol=1e-7, atol=1e-9):
    """max-norm closeness for tensors: |a-b| <= atol + rtol*max(|a|,|b|) (scale taken over the whole tensor)."""
    import torch
    a = torch.as_tensor(a, dtype=torch.float64)
    b = torch.as_tensor(b, dtype=torch.float64)
    if a.shape != b.shape:
        return False, "shape %s vs %s" % (tuple(a.shape), tuple(b.shape))
    if a.numel() == 0:
        return True, ""
    if not (torch.isfinite(a).all() and torch.isfinite(b).all()):
        same = torch.equal(torch.nan_to_num(a, nan=1.2345e300), torch.nan_to_num(b, nan=1.2345e300))
        return same, "" if same else "non-finite values differ"
    scale = max(float(a.abs().max()), float(b.abs().max()))
    err = float((a - b).abs().max())
    ok = err <= atol + rtol * scale
    return ok, "" if ok else "max|diff|=%.3e scale=%.3e (tol %.1e rel + %.1e abs)" % (err, scale, rtol, atol)
