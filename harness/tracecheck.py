"""Validate recorded executions against a *Trace.tla spec with TLC.

A trace spec here is total: every event is consumed and failed property clauses are collected in the state
variable `bad` (records with at least l, clause); the state after the last event has fin = TRUE.  One TLC run
validates all traces of a file (initial states range over the trace index t)."""
import json
import os
import re

from . import core, tlaval, tlc


def write_traces(path, traces):
    """traces: list of event lists."""
    with open(path, "w") as f:
        for i, evs in enumerate(traces):
            f.write(json.dumps({"tid": i + 1, "events": evs}, default=repr) + "\n")


_HDR = re.compile(r"^State \d+:", re.M)


def terminal_states(dump_path):
    with open(dump_path) as f:
        text = f.read()
    idx = [m.start() for m in _HDR.finditer(text)]
    idx.append(len(text))
    out = []
    for a, b in zip(idx, idx[1:]):
        blk = text[a:b]
        if re.search(r"/\\ fin = TRUE", blk):
            body = blk.split("\n", 1)[1]
            out.append(tlaval.parse_state(body))
    return out


def _rec(b):
    """Records inside TLA+ sets are parsed into hashable tuples of (field, value) pairs; turn them back."""
    if isinstance(b, dict):
        return tlaval.to_json(b)
    return {str(k): tlaval.to_json(v) for k, v in b}


def validate(module, cfg, traces, name, workers=8, timeout=1800, env_extra=None):
    """Returns (res, verdicts) where verdicts[i] = dict(bad=[...], state=final state) for trace i (0-based)."""
    work = os.path.join(tlc.BUILD, name)
    os.makedirs(work, exist_ok=True)
    tf = os.path.join(work, "traces.ndjson")
    write_traces(tf, traces)
    env = {"TRACE_FILE": tf}
    if env_extra:
        env.update(env_extra)
    res = tlc.run(module, cfg, name=name + "/tlc", workers=workers, timeout=timeout, dump=True, env=env, coverage=False, heap="8g")
    finals = terminal_states(res.dump_path)
    by_t = {}
    for st in finals:
        by_t[st["t"]] = st
    if len(by_t) != len(traces):
        raise core.Machinery("trace spec %s did not reach the end of every trace (%d of %d): not total?" % (module, len(by_t), len(traces)))
    expect_states = sum(len(t) + 1 for t in traces)
    if res.distinct != expect_states:
        raise core.Machinery("trace spec %s: %d distinct states for %d events+initial states (branching or stuttering trace spec)" % (module, res.distinct, expect_states))
    verdicts = []
    for i in range(len(traces)):
        st = by_t[i + 1]
        bad = sorted((_rec(b) for b in st.get("bad", ())), key=lambda b: b.get("l", 0))
        verdicts.append(dict(bad=bad, state=st))
    return res, verdicts
