"""Run TLC on a module of /verif/spec and parse what it reports."""
import os
import re
import shutil
import subprocess
import time

from . import tlaval

VERIF = os.path.dirname(os.path.dirname(os.path.abspath(__file__)))
SPEC = os.path.join(VERIF, "spec")
BUILD = os.path.join(os.environ.get("VERIF_OUT", VERIF), "build")
JAR = "/opt/veriftools/tla/tla2tools.jar:/opt/veriftools/tla/CommunityModules-deps.jar"


class TLCError(RuntimeError):
    """Machinery failure (parse error, TLC crash, timeout)."""


class TLCResult:
    def __init__(self):
        self.rc = None
        self.stdout = ""
        self.generated = 0
        self.distinct = 0
        self.depth = 0
        self.wall_s = 0.0
        self.violation = None  # dict(kind=..., name=..., trace=[(action, state)])
        self.coverage = {}  # action name -> (distinct, generated)
        self.dump_path = None
        self.sim_dir = None
        self.workdir = None

    @property
    def ok(self):
        return self.violation is None

    def states(self):
        """States of the -dump file as list of dicts."""
        with open(self.dump_path) as f:
            return [s for _, s in tlaval.parse_dump(f.read())]

    def behaviours(self):
        """Behaviours written by -simulate file=...: list of list of (action, state)."""
        out = []
        for fn in sorted(os.listdir(self.sim_dir)):
            with open(os.path.join(self.sim_dir, fn)) as f:
                out.append(parse_sim_file(f.read()))
        return out


_SIM_STATE = re.compile(r"^STATE_(\d+) ==\s*$", re.M)
_SIM_ACT = re.compile(r"^\\\* <?\s*([A-Za-z_][A-Za-z0-9_]*)", re.M)


def parse_sim_file(text):
    """A -simulate trace file: '\\* <Action ...>' comment lines followed by 'STATE_n ==' blocks."""
    out = []
    hdrs = list(_SIM_STATE.finditer(text))
    for j, m in enumerate(hdrs):
        end = hdrs[j + 1].start() if j + 1 < len(hdrs) else len(text)
        body = text[m.end():end]
        # strip trailing comment / separator lines
        lines = []
        act_next = None
        for ln in body.splitlines():
            if ln.startswith("\\*"):
                continue
            if ln.startswith("====") or ln.startswith("----"):
                continue
            lines.append(ln)
        pre = text[(hdrs[j - 1].end() if j else 0):m.start()]
        acts = _SIM_ACT.findall(pre)
        act = acts[-1] if acts else None
        out.append((act, tlaval.parse_state("\n".join(lines))))
    return out


def write_cfg(path, *, init="Init", next="Next", spec=None, constants=None, invariants=(), properties=(),
              constraints=(), action_constraints=(), postcondition=None, check_deadlock=False, view=None, symmetry=None):
    lines = []
    if spec:
        lines.append("SPECIFICATION %s" % spec)
    else:
        lines += ["INIT %s" % init, "NEXT %s" % next]
    if constants:
        lines.append("CONSTANTS")
        for k, v in constants.items():
            lines.append("  %s = %s" % (k, tla_literal(v)) if not (isinstance(v, str) and v.startswith("<-")) else "  %s %s" % (k, v))
    for i in invariants:
        lines.append("INVARIANT %s" % i)
    for p in properties:
        lines.append("PROPERTY %s" % p)
    for c in constraints:
        lines.append("CONSTRAINT %s" % c)
    for c in action_constraints:
        lines.append("ACTION_CONSTRAINT %s" % c)
    if postcondition:
        lines.append("POSTCONDITION %s" % postcondition)
    if view:
        lines.append("VIEW %s" % view)
    if symmetry:
        lines.append("SYMMETRY %s" % symmetry)
    lines.append("CHECK_DEADLOCK %s" % ("TRUE" if check_deadlock else "FALSE"))
    with open(path, "w") as f:
        f.write("\n".join(lines) + "\n")


class Raw(str):
    """A literal TLA+ expression for a cfg constant."""


def tla_literal(v):
    if isinstance(v, Raw):
        return str(v)
    if isinstance(v, bool):
        return "TRUE" if v else "FALSE"
    if isinstance(v, int):
        if v < 0:
            raise ValueError("cfg files reject negative literals; use a definition override")
        return str(v)
    if isinstance(v, str):
        return '"%s"' % v
    if isinstance(v, (set, frozenset)):
        return "{" + ", ".join(sorted(tla_literal(x) for x in v)) + "}"
    if isinstance(v, (list, tuple)):
        return "<<" + ", ".join(tla_literal(x) for x in v) + ">>"
    raise TypeError("no TLA literal for %r" % (v,))


_COV = re.compile(r"^<(\w+) line \d+, col \d+ to line \d+, col \d+ of module (\w+)(?: \([\d ]+\))?>: (\d+):(\d+)", re.M)
_STATS = re.compile(r"(\d+) states generated, (\d+) distinct states found")
_DEPTH = re.compile(r"The depth of the complete state graph search is (\d+)")


def run(module, cfg, *, name=None, workers=16, timeout=600, dump=False, simulate=None, depth=None, seed=None,
        env=None, coverage=True, dfid=None, extra=(), java_opts=(), heap="4g", check=True, keep_work=False):
    """Run TLC on spec/<module>.tla with the cfg file `cfg` (absolute path or relative to spec/).

    simulate: None or dict(num=N) -> `-simulate file=<dir>/tr,num=N`
    Returns a TLCResult; raises TLCError on machinery failures (when check=True)."""
    name = name or module
    work = os.path.join(BUILD, name)
    if not keep_work:
        shutil.rmtree(work, ignore_errors=True)
    os.makedirs(work, exist_ok=True)
    cfg_path = cfg if os.path.isabs(cfg) else os.path.join(SPEC, cfg)
    cmd = ["java", "-XX:+UseParallelGC", "-Xmx" + heap, "-DTLA-Library=" + SPEC] + list(java_opts) + ["-cp", JAR, "tlc2.TLC",
           "-workers", str(workers), "-metadir", os.path.join(work, "meta"), "-noGenerateSpecTE", "-config", cfg_path]
    res = TLCResult()
    res.workdir = work
    if coverage and not simulate:
        cmd += ["-coverage", "1"]
    if dump:
        res.dump_path = os.path.join(work, "states.dump")
        cmd += ["-dump", os.path.join(work, "states")]
    if simulate:
        res.sim_dir = os.path.join(work, "sim")
        os.makedirs(res.sim_dir)
        cmd += ["-simulate", "file=%s/tr,num=%d" % (res.sim_dir, simulate["num"])]
        if depth:
            cmd += ["-depth", str(depth)]
    if seed is not None:
        cmd += ["-seed", str(seed)]
    if dfid is not None:
        cmd += ["-dfid", str(dfid)]
    cmd += list(extra)
    cmd.append(module if os.path.isabs(module) else os.path.join(SPEC, module + ".tla"))
    e = dict(os.environ)
    if env:
        e.update(env)
    t0 = time.time()
    try:
        p = subprocess.run(cmd, cwd=(os.path.dirname(module) if os.path.isabs(module) else SPEC), env=e, stdout=subprocess.PIPE, stderr=subprocess.STDOUT, timeout=timeout, text=True)
    except subprocess.TimeoutExpired as ex:
        subprocess.run(["pkill", "-f", os.path.join(work, "meta")])
        raise TLCError("TLC timed out after %ss on %s" % (timeout, name)) from ex
    res.wall_s = time.time() - t0
    res.rc = p.returncode
    out = res.stdout = p.stdout
    with open(os.path.join(work, "tlc.out"), "w") as f:
        f.write(out)
    m = None
    for m in _STATS.finditer(out):
        pass
    if m:
        res.generated, res.distinct = int(m.group(1)), int(m.group(2))
    m = _DEPTH.search(out)
    if m:
        res.depth = int(m.group(1))
    for m in _COV.finditer(out):
        a = m.group(1)
        d, g = int(m.group(3)), int(m.group(4))
        od, og = res.coverage.get(a, (0, 0))
        res.coverage[a] = (od + d, og + g)
    # violations
    vm = re.search(r"Error: Invariant (\w+) is violated", out)
    kind = None
    if vm:
        kind, vname = "invariant", vm.group(1)
    else:
        vm = re.search(r"Error: Action property (\w+) is violated", out) or re.search(r"Error: Temporal properties were violated", out)
        if vm:
            kind, vname = "property", (vm.group(1) if vm.groups() else "temporal")
        elif "Error: Deadlock reached" in out:
            kind, vname = "deadlock", "deadlock"
        elif re.search(r"Error: Assumption .* is false", out):
            kind, vname = "assumption", re.search(r"Error: Assumption (.*) is false", out).group(1)
        elif re.search(r"POSTCONDITION.*(violated|false)", out, re.I) or "Error: The postcondition" in out:
            kind, vname = "postcondition", "postcondition"
    if kind:
        trace = []
        tm = re.search(r"Error: The behavior up to this point is:(.*?)(?:\n\d+ states generated|\nError: |\Z)", out, re.S)
        if tm:
            try:
                trace = tlaval.parse_dump(tm.group(1))
            except tlaval.TLAParseError:
                trace = []
        res.violation = dict(kind=kind, name=vname, trace=trace)
    elif check:
        if res.rc != 0 or "Error:" in out:
            tail = "\n".join(out.splitlines()[-40:])
            raise TLCError("TLC failed on %s (rc=%s):\n%s" % (name, res.rc, tail))
    return res


def printed(out):
    """Values printed with PrintT, one per line, that look like JSON lines starting with '{"' or '['... are
    returned raw; callers parse them."""
    return [ln for ln in out.splitlines() if ln.startswith('"{') or ln.startswith("{\"")]


def sany(module):
    p = subprocess.run(["java", "-cp", JAR, "tla2sany.SANY", os.path.join(SPEC, module + ".tla")], cwd=SPEC,
                       stdout=subprocess.PIPE, stderr=subprocess.STDOUT, text=True)
    return p.returncode == 0 and "Semantic errors" not in p.stdout and "Parsing error" not in p.stdout and "*** Errors" not in p.stdout, p.stdout


def run_many(jobs, parallel=4):
    """jobs: list of (args, kwargs) for run(); executed `parallel` at a time (each TLC is its own JVM).
    Returns results in order; exceptions are re-raised."""
    from concurrent.futures import ThreadPoolExecutor
    with ThreadPoolExecutor(max_workers=parallel) as ex:
        futs = [ex.submit(run, *a, **k) for a, k in jobs]
        return [f.result() for f in futs]
